"""C09 — generator calls are memoised and their modules uniquely named.

Decided: cache discipline in `run` (lookup before body, store after, key
eq/hash agreement), injective readable names (strings rendered unambiguously),
process-independent hashed names, no renaming of modules produced by another
generator call, length limit, whole-digest suffix.  Collision freedom of the
hashed branch is not decided.
"""

from __future__ import annotations

import ast
from typing import Dict, List, Optional, Set, Tuple

from ..core import AnalysisError, FuncInfo, Repo, dotted
from ..cfg import CFG, Client, run as run_df
from .. import au, pat
from .common import *  # noqa
from .common import key_of
from .shared import path_conditions
from .c08 import may_raise

from . import shared


NEEDS_READER = True  # attached C06 clauses read the netlisters' conventions
NEEDS_PDKS = True  # the attached C12 clause on walker state covers the PDK walkers


def check(repo: Repo, R) -> None:
    R.run(cache_discipline, repo, R)
    R.run(readable_names, repo, R)
    R.run(hashed_names, repo, R)
    R.run(no_foreign_rename, repo, R)
    from . import c12, c06
    R.run(c12.check, repo, shared.Retag(R, lambda r, k: "C09.3-hashed-names-process-independent" if r.startswith("C12.3") and ("_unique_name" in k or "naming_encoder" in k) else None,
                                 "the name of a generated module depends on something other than the parameter values (an address, a salted hash): equal parameters give different names"))
    R.run(c06.check, repo, shared.Retag(R, lambda r, k: "C09.5-distinct-modules-distinct-names" if r.startswith("C06.2") and (k.endswith("export_module_name") or k.endswith("name-reserved-before-children") or k.endswith("own-export-only")) else None,
                                 "two different generated modules that share a qualified name are exported as one name defined twice, instead of being refused"))
    # a result enters the cache finished — named: whatever fails while naming it fails the call, and nothing half-named
    # is handed out by the next, identical call
    from . import c08 as _c08
    R.run(_c08.check, repo, shared.Retag(R, lambda r, k: "C09.8-cached-only-when-named" if r.startswith("C08.2") and k.startswith("hdl21/generator.py") else None,
                                        "a generator call whose naming failed (un-encodable parameter value) has already cached its module: the identical call returns it, under the bare generator name that other parameter values share"))
    R.run(qualified_names, repo, R)
    R.run(definition_site, repo, R)
    R.run(generators_return_their_own, repo, R)
    from . import c13 as _c13
    R.run(_c13.to_scalar_shape, repo, shared.Retag(R, lambda r: "C09.7-equal-values-one-cache-entry",
                                                  "a parameter value written as a float, a string or a Decimal is one number but no longer one cache key: the body runs twice, two modules come back under one name"))
    R.floor("C09.1-cache-discipline", 5)
    R.floor("C09.2-readable-names-injective", 2)
    R.floor("C09.3-hashed-names-process-independent", 3)
    R.floor("C09.4-no-foreign-rename", 1)


def cache_discipline(repo: Repo, R):
    rule = "C09.1-cache-discipline"
    fr = repo.func(F_GENERATOR, "run")
    env = au.local_env(fr.node)
    cfg = CFG(fr.node, may_raise)
    body_calls = [c for c in au.calls_in(fr.node) if ast.unparse(au.expand(c.func, env)).endswith(".gen.func")]
    if len(body_calls) != 1:
        raise AnalysisError(f"idiom-unknown: generator body call in {fr.site}")
    lookups = [st for st in au.stmts(fr.node) if isinstance(st, ast.Assign) and pat.match("$C.done.get(call, None)", st.value)]
    # (canonical spelling of the look-up: `if call in <cache>.done: return <cache>.done[call]`)
    lookup_ifs = [n for n in au.walk_no_nested(fr.node) if isinstance(n, ast.If) and pat.match("call in $C.done", n.test) is not None]
    if not lookups and len(lookup_ifs) == 1:
        lookups = lookup_ifs
    stores = [st for st in au.stmts(fr.node) if isinstance(st, ast.Assign) and isinstance(st.targets[0], ast.Subscript) and ast.unparse(st.targets[0].value).endswith(".done") and ast.unparse(st.targets[0].slice) == "call"]
    if len(lookups) != 1 or len(stores) != 1:
        raise AnalysisError(f"idiom-unknown: cache lookup/store in {fr.site}")

    class C(Client):
        def transfer(self, node, w):
            if node.kind == "test" and node.ast is lookups[0]:
                w = w | {"LOOKED-UP"}
            if node.kind == "stmt":
                if node.ast is lookups[0]:
                    w = w | {"LOOKED-UP"}
                if any(x is body_calls[0] for x in ast.walk(node.ast)):
                    w = w | {"BODY-RAN"}
            return [w]

    IN = run_df(cfg, C())
    bn = [n for n in cfg.nodes if n.kind == "stmt" and any(x is body_calls[0] for x in ast.walk(n.ast))]
    cached_paths = [w for n in bn for w in IN[n.id] if ("cond", "call.gen.enable_cache", True) in w]
    ok_lookup = bool(cached_paths) and all("LOOKED-UP" in w for w in cached_paths)
    R.check(ok_lookup, rule, key_of(fr, "lookup-before-body"), fr.site, f"with caching enabled the body runs only after the cache was consulted: {ok_lookup} ({len(cached_paths)} path state(s))", why="an identical call runs the body again and returns a second Module")
    hits = [r for r in shared.returns_of(fr.node) if r.value is not None and pat.match("$C.done.get(call)", shared.prov(fr.node, r.value)) is not None]
    hit = len(hits) == 1 and isinstance(hits[0].value, ast.Name) and shared.cond_match(fr.node, hits[0], f"{hits[0].value.id} is None", False, use_prov=False)
    if not hits:
        hits2 = [r for r in shared.returns_of(fr.node) if r.value is not None and pat.match("$C.done[call]", shared.prov(fr.node, r.value)) is not None]
        hit = len(hits2) == 1 and shared.presence(fr.node, hits2[0], ast.unparse(shared.prov(fr.node, hits2[0].value).value), "call") is True
    R.check(hit, rule, key_of(fr, "hit-returns-cached"), fr.site, f"a cache hit returns the cached Module itself: {hit}", why="equal calls return different Modules")
    sn = cfg.nodes_for(stores[0])
    ok_store = bool(sn) and all("BODY-RAN" in w and ("cond", "call.gen.enable_cache", True) in w for n in sn for w in IN[n.id]) and isinstance(stores[0].value, ast.Name) and any(isinstance(st_, ast.Assign) and len(st_.targets) == 1 and isinstance(st_.targets[0], ast.Name) and st_.targets[0].id == stores[0].value.id and any(x is body_calls[0] for x in ast.walk(st_.value)) for st_ in au.stmts(fr.node))
    R.check(ok_store, rule, key_of(fr, "store-after-body"), fr.site, f"the result is stored under the call after the body ran, only when caching is enabled: {ok_store}", why="the cache maps a call to nothing or to another call's module")
    # parameter instance type check precedes the body
    tc = shared.fails_unless(fr.node, "isinstance(call.params, call.gen.Params)")
    R.check(tc is not None and shared.cond_match(fr.node, body_calls[0], "isinstance(call.params, call.gen.Params)", True, use_prov=False), rule, key_of(fr, "params-type-checked"), fr.site, f"the parameter object is checked to be an instance of the generator's param class before the body runs: {tc is not None}",
            why="a call with a foreign parameter object is cached under a key that never equals a keyword call")
    # the parameter object is the key: every declared parameter takes part in its equality and hash
    fpc = repo.func(F_PARAMS, "paramclass")
    offk = []
    for c in au.calls_in(fpc.node, nested=True):
        nm = dotted(c.func) or ""
        if nm.split(".")[-1] in ("field", "dataclass", "make_dataclass", "Field"):
            for k in c.keywords:
                if k.arg in ("compare", "hash", "eq") and isinstance(k.value, ast.Constant) and k.value.value is False:
                    offk.append(f"`{ast.unparse(c)[:70]}`")
    R.check(not offk, rule, key_of(fpc, "every-field-compared"), fpc.site, "paramclass keeps every declared parameter in the equality and hash of the parameter object" if not offk else f"paramclass takes fields out of the comparison: {offk}",
            why="two generator calls that differ only in a parameter declared with default_factory share one cache key: MosStack(unit=Pmos()) returns the stack built for unit=Nmos()")
    # key eq / hash
    ci = repo.cls(F_GENERATOR, "GeneratorCall")
    eq, hs = ci.methods.get("__eq__"), ci.methods.get("__hash__")
    eq_ok = eq is not None and bool(pat.find("self.gen is other.gen and self.params == other.params", eq.node))
    hs_ok = hs is not None and bool(pat.find("hash((id(self.gen), self.params))", hs.node))
    R.check(eq_ok and hs_ok, rule, key_of(ci.methods["__eq__"]) if eq else f"{F_GENERATOR}::GeneratorCall", ci.site,
            f"GeneratorCall: equality = generator identity and parameter equality ({eq_ok}); hash = (id(generator), parameters) ({hs_ok})", why="equal calls miss the cache, or calls of different generators with equal parameters share an entry")
    fg = repo.func(F_GENERATOR, "Generator.__call__")
    grets = shared.returns_of(fg.node)
    ok = len(grets) == 1 and shared.prov_text(fg.node, grets[0].value) == "run(GeneratorCall(gen=self, params=param_call(callee=self, arg=arg, **kwargs)))"
    R.check(ok, rule, key_of(fg), fg.site, f"Generator() builds the parameter object, wraps it in a GeneratorCall of this generator and runs it: {ok}", why="calls bypass the cache")
    fp = repo.func(F_CALL, "param_call")
    both = shared.raises_under(fp.node, [("kwargs", True), ("arg is Default", False)])
    insts = [r for r in shared.returns_of(fp.node) if ast.unparse(r.value) == "arg"]
    inst = len(insts) == 1 and shared.conds_imply(shared.path_conditions(fp.node, insts[0]), [(shared.parse_cond("arg is Default"), False)]) is True
    kws = [r for r in shared.returns_of(fp.node) if shared.prov_text(fp.node, r.value) == "callee.Params(**kwargs)"]
    kw = len(kws) == 1 and shared.conds_imply(shared.path_conditions(fp.node, kws[0]), [(shared.parse_cond("arg is Default"), True)]) is True
    # the keyword arguments reach the parameter class as given: `kwargs` is not filtered or rewritten on the way
    kwname = fp.node.args.kwarg.arg if fp.node.args.kwarg else None
    reb = shared.param_rebound(fp.node, kwname) if kwname else []
    R.check(kwname is not None and not reb, rule, key_of(fp, "kwargs-as-given"), fp.at(reb[0]) if reb else fp.site,
            f"param_call passes the caller's keyword arguments to the parameter class unchanged" if not reb else f"`{ast.unparse(reb[0])[:80]}` rewrites the keyword arguments before the parameter object is built",
            why="Gen(x=None) and Gen(Params(x=None)) build different parameter objects: two Modules for one set of values (and Gen(x=None) is Gen())")
    R.check(both and inst and kw, rule, key_of(fp), fp.site, f"param_call: instance form returns the instance ({inst}); keyword form constructs callee.Params(**kwargs) ({kw}); giving both fails ({both})", why="keyword and instance calls with equal values produce unequal keys")


def readable_names(repo: Repo, R):
    rule = "C09.2-readable-names-injective"
    fi = repo.func(F_PARAMS, "_unique_name")
    # accepted scalar types
    scal = None
    for n in ast.walk(fi.node):
        # by role: the collection the parameters' dtypes are tested against
        if isinstance(n, ast.Compare) and len(n.ops) == 1 and isinstance(n.ops[0], ast.In) and ast.unparse(n.left).endswith(".dtype"):
            coll = shared.prov(fi.node, n.comparators[0])
            if isinstance(coll, (ast.List, ast.Tuple, ast.Set)):
                scal = [ast.unparse(e) for e in coll.elts]
    if scal is None:
        raise AnalysisError(f"idiom-unknown: `scalars` list in {fi.site}")
    has_str = any("str" in s for s in scal)
    # the joined collection, by role: a comprehension, or a list filled by one loop of appends
    joins = []
    for c, b in pat.find("$SEP.join($G)", fi.node):
        els = _collection_elements(fi.node, b["G"])
        if els is not None:
            joins.append((c, els))
    if len(joins) != 1:
        raise AnalysisError(f"idiom-unknown: readable-name join in {fi.site}")
    join_call, (elts, gen_iter, gen_plain) = joins[0]
    joins = [join_call]
    safe = bool(elts)
    how = "values are inserted verbatim (str())"
    hows = []
    for elt, conds in elts:
        rendered = None
        if isinstance(elt, ast.JoinedStr):
            vals = [v for v in elt.values if isinstance(v, ast.FormattedValue)]
            if len(vals) == 2:
                rendered = vals[1]
        this_safe = False
        h_ = "values are inserted verbatim (str())"
        if rendered is not None:
            if rendered.conversion == ord("r"):
                this_safe, h_ = True, "values rendered with !r"
            v = rendered.value
            if isinstance(v, ast.Call):
                nm = dotted(v.func) or ""
                # is the value known to be a string / not a string on this path?
                is_str = None
                for t_, pol_ in conds:
                    rr = au.isinstance_classes(t_) if isinstance(t_, ast.Call) else None
                    if rr and {ast.unparse(c_) for c_ in rr[1]} == {"str"} and v.args and ast.unparse(rr[0]) == ast.unparse(v.args[0]):
                        is_str = pol_
                if nm in ("repr", "json.dumps"):
                    this_safe, h_ = True, f"values rendered with {nm}()"
                elif nm == "str" and is_str is False:
                    this_safe, h_ = True, "non-string values rendered with str() (strings are quoted on the other path)"
                else:
                    r = repo.resolve_call(v, fi)
                    if isinstance(r, FuncInfo):
                        # helper must quote strings: `if isinstance(val, str): return repr(val)`
                        a = r.node.args.args[0].arg
                        q = any(isinstance(n, ast.If) and ast.unparse(n.test) == f"isinstance({a}, str)" and isinstance(n.body[-1], ast.Return) and ast.unparse(n.body[-1].value) in (f"repr({a})", f"json.dumps({a})") for n in au.walk_no_nested(r.node))
                        # every other value must be rendered without loss: str()/repr() of the value itself, no format spec
                        rets = [ast.unparse(n.value) for n in au.walk_no_nested(r.node) if isinstance(n, ast.Return) and n.value is not None]
                        lossy = [x for x in rets if x not in (f"repr({a})", f"str({a})", f"json.dumps({a})")]
                        if q and lossy:
                            h_ = f"values rendered by `{r.name}`, which renders some values lossily: `{lossy[0]}`"
                        elif q:
                            this_safe, h_ = True, f"values rendered by `{r.name}`, which quotes and escapes strings and renders everything else with str()"
                        else:
                            h_ = f"values rendered by `{r.name}`, which does not quote strings"
        if rendered is not None and rendered.format_spec is not None:
            this_safe, h_ = False, f"values are rendered with a format specification `{ast.unparse(rendered.format_spec)}` (lossy)"
        safe = safe and this_safe
        hows.append(h_)
        if not this_safe:
            how = h_
    if safe:
        how = "; ".join(sorted(set(hows)))
    R.check(safe or not has_str, rule, key_of(fi, "string-values"), fi.at(joins[0]),
            f"readable branch accepts {scal}; {how}",
            why="(a='x b=y', b='z') and (a='x', b='y b=z') — or None and 'None', or two floats that agree in their first digits — give one name for two different modules, which the exporter then refuses")
    lim = None
    for n in au.walk_no_nested(fi.node):
        if isinstance(n, ast.If) and au.cmp_norm(n.test) and n.body and isinstance(n.body[-1], ast.Return) and isinstance(n.body[-1].value, ast.Name) and f"len({n.body[-1].value.id})" in ast.unparse(n.test) and shared.prov_text(fi.node, n.body[-1].value) == shared.prov_text(fi.node, joins[0]):
            lim = n
    R.check(lim is not None, rule, key_of(fi, "length-limit"), fi.site, f"the readable name is used only below the length limit (`{ast.unparse(lim.test) if lim else None}`), otherwise the hash", why="over-long module names reach the netlist")
    keys = gen_plain and shared.prov_text(fi.node, gen_iter) in ("params.__params__.keys()", "params.__params__", "list(params.__params__)", "list(params.__params__.keys())")
    R.check(keys, rule, key_of(fi, "all-params"), fi.site, f"every parameter of the class takes part in the name, in declaration order: {keys}", why="two calls differing in an omitted parameter share a name")
    fr = repo.func(F_GENERATOR, "run")
    sfx = pat.find("$M.name += '(' + _unique_name(call.params) + ')'", fr.node)
    hp = any(shared.cond_match(fr.node, c, "hasparams(call.gen.Params)", True, use_prov=False) for c, _b in sfx)
    R.check(bool(sfx) and hp, rule, key_of(fr, "suffix"), fr.site, f"generated modules are named <name>(<unique parameter name>) whenever the generator has parameters: {bool(sfx) and hp}", why="modules generated from different parameters share a name")


def hashed_names(repo: Repo, R):
    rule = "C09.3-hashed-names-process-independent"
    fi = repo.func(F_PARAMS, "_unique_name")
    fe = repo.func(F_PARAMS, "hdl21_naming_encoder")
    for f in (fi, fe):
        bad = []
        for c in au.calls_in(f.node, nested=True):
            nm = dotted(c.func) or ""
            if nm in ("hash", "id", "pickle.dumps", "repr") and not (nm == "repr" and f is fi):
                bad.append(ast.unparse(c))
        R.check(not bad, rule, key_of(f, "no-address-or-salted-hash"), f.site, f"{f.name}: no hash()/id()/pickle/default repr on the naming path" if not bad else f"{f.name} uses `{bad[0]}`",
                why="names of generated modules change between processes (hash randomisation / addresses)")
    js = bool(pat.find("json.dumps(params, indent=4, default=hdl21_naming_encoder)", fi.node)) or bool(pat.find("json.dumps(params, *$_)", fi.node))
    md = digest_over_json(fi)[0]
    dig = [r for r in shared.returns_of(fi.node) if pat.match("$H.hexdigest()", r.value) is not None]
    whole = len(dig) == 1 and len(shared.returns_of(fi.node)) == 2
    R.check(js and md and whole, rule, key_of(fi, "digest"), fi.site, f"non-readable names are a hashlib digest ({md}) of the JSON text of the parameters ({js}), used whole ({whole})", why="hashed names collide (truncated digest) or differ between processes")
    dflt = au.tail_default(fe.node.body)
    ok = bool(dflt) and isinstance(dflt[-1], ast.Return) and ast.unparse(dflt[-1].value) == "pydantic_json_encoder(obj)"
    mods = any(ast.unparse(r.value) == "module_qualname(obj)" and shared.cond_match(fe.node, r, "isinstance(obj, (Module, ExternalModule, Generator))", True, use_prov=False) for r in shared.returns_of(fe.node))
    sets_ok = False
    for n_, classes, arm in au.dispatch_arms(fe.node, fe.node.args.args[0].arg):
        ks = {ast.unparse(c) for c in classes}
        if {"set", "frozenset"} <= ks:
            rets_ = [x for b_ in arm for x in ast.walk(b_) if isinstance(x, ast.Return)]
            # sorted over the elements' *encodings* (strings: a total order) — not over the elements themselves, whose
            # own order may be partial (sets compare by inclusion) or undefined
            def by_text(v):
                if not (isinstance(v, ast.Call) and ast.unparse(v.func) == "sorted" and len(v.args) == 1 and not v.keywords):
                    return False
                g = v.args[0]
                return isinstance(g, (ast.GeneratorExp, ast.ListComp)) and isinstance(g.elt, ast.Call) and (dotted(g.elt.func) or "") in ("json.dumps", "str", "repr")
            sets_ok = bool(rets_) and all(by_text(v) for r_ in rets_ for v, _c in shared.alternatives(fe.node, r_.value, shared.path_conditions(fe.node, r_), at=r_))
    R.check(sets_ok, rule, key_of(fe, "sets-ordered"), fe.site, f"set-valued parameters are encoded as the sorted texts of their elements' encodings (a total order; not iteration order, not the elements' own order): {sets_ok}",
            why="the default encoder lists a set in hash order, and sorted() over mutually incomparable elements (disjoint frozensets) returns its input order: the md5 name of a module generated from a set-valued parameter changes with PYTHONHASHSEED")
    # by kind, whatever the shape of the dispatch: a value defined by the user (a Module, an ExternalModule, a Generator — or a
    # call of an ExternalModule) is named through the qualified path of its definition
    universe = {"Instance", "Module", "ExternalModule", "Generator", "Primitive", "PrimitiveCall", "ExternalModuleCall", "set", "frozenset"}
    oa = fe.node.args.args[0].arg
    want_q = {"Module": f"module_qualname({oa})", "ExternalModule": f"module_qualname({oa})", "Generator": f"module_qualname({oa})", "ExternalModuleCall": f"module_qualname({oa}.module)"}
    got_q: Dict[str, List[str]] = {}
    for r_ in shared.returns_of(fe.node):
        if r_.value is None:
            continue
        ks_ = shared.admissible_kinds(fe.node, r_, oa, universe)
        for v, _c in shared.alternatives(fe.node, r_.value, shared.path_conditions(fe.node, r_), at=r_):
            for k_ in ks_ & set(want_q):
                got_q.setdefault(k_, []).append(ast.unparse(v))
    for k_, w_ in want_q.items():
        vals = got_q.get(k_, [])
        okq = bool(vals) and all(w_ in t_ and (k_ != "ExternalModuleCall" or f"_unique_name({oa}.params)" in t_) for t_ in vals)
        R.check(okq, "C09.5-distinct-modules-distinct-names", key_of(fe, f"qualified-{k_}"), fe.site,
                f"a {k_}-valued parameter is encoded through `{w_}`" + (f" and the unique name of its parameters" if k_ == "ExternalModuleCall" else "") + f": {vals}",
                why=f"two {k_}s of one name from two Python modules encode alike: the generated modules of `Gen(unit=a.res(..))` and `Gen(unit=b.res(..))` get one name, and the design is refused (or exported under one name)")
    # numbers are encoded by their exact value, as text: equal values (however written) one encoding, unequal values two.
    # The default encoder turns a Decimal into a float, and a Prefixed into its (number, prefix) pair.
    from . import c14 as _c14
    nrm = _c14.normaliser(repo)
    nname_ = nrm.name if nrm is not None else "_exact"
    want_n = {"Prefixed": f"{nname_}({oa})", "Decimal": f"{oa}"}
    got_n: Dict[str, List[str]] = {}
    for r_ in shared.returns_of(fe.node):
        if r_.value is None:
            continue
        ks_ = shared.admissible_kinds(fe.node, r_, oa, universe | {"Prefixed", "Decimal"})
        for v, _c in shared.alternatives(fe.node, r_.value, shared.path_conditions(fe.node, r_), at=r_):
            for k_ in ks_ & set(want_n):
                got_n.setdefault(k_, []).append(ast.unparse(v))
    for k_, w_ in want_n.items():
        vals = got_n.get(k_, [])
        okn = bool(vals) and all(f"str({w_}.normalize())" in t_ and "float(" not in t_ for t_ in vals)
        R.check(okn, "C09.7-equal-values-one-cache-entry", key_of(fe, f"exact-{k_}"), fe.site,
                f"a {k_} value is encoded as the normalised text of its exact value (`str({w_}.normalize())`): {[t_[:60] for t_ in vals]}",
                why="`1000*m` and `1*UNIT` are one cached module named after whichever spelling was called first; Decimal('0.1000000000000000001') and Decimal('0.1') are two modules under one md5 name")
    R.check(ok and mods, rule, key_of(fe, "encoder"), fe.site, f"the encoder names Module/ExternalModule/Generator values by their qualified name ({mods}) and hands everything else to the (raising) default encoder ({ok})", why="module-valued parameters are named by their address-bearing repr")


def no_foreign_rename(repo: Repo, R):
    rule = "C09.4-no-foreign-rename"
    fr = repo.func(F_GENERATOR, "run")
    defs = au.local_defs(fr.node)
    # the generated module, by role: what the generator function returned
    mv = None
    for st in au.stmts(fr.node):
        if isinstance(st, ast.Assign) and len(st.targets) == 1 and isinstance(st.targets[0], ast.Name) and isinstance(st.value, ast.Call) and ast.unparse(au.expand(st.value.func, au.local_env(fr.node))).endswith(".gen.func"):
            mv = st.targets[0].id
    if mv is None:
        raise AnalysisError(f"idiom-unknown: the generator function's result is not bound to a local in {fr.site}")
    stores = [st for st in au.stmts(fr.node) if isinstance(st, (ast.Assign, ast.AugAssign)) and ast.unparse(st.targets[0] if isinstance(st, ast.Assign) else st.target) == f"{mv}.name"]
    if not stores:
        raise AnalysisError(f"idiom-unknown: no `{mv}.name` store in {fr.site}")
    bad = []
    ow = [s_ for s_ in au.stmts(fr.node) if isinstance(s_, ast.Assign) and ast.unparse(s_.targets[0]) == f"{mv}._generated_by"]
    for st in stores:
        guarded = False
        for t, pol in path_conditions(fr.node, st):
            # the test, with a flag local replaced by what it was computed from
            tx = shared.prov(fr.node, t, depth=1, keep=(mv,))
            if shared.conds_imply([(tx, pol)], [(shared.parse_cond(f"{mv}._generated_by is None"), True)]) is True:
                # the (flag's) read of `_generated_by` must happen before the attribute is overwritten
                readers = [s_ for s_ in au.stmts(fr.node) if isinstance(s_, ast.Assign) and len(s_.targets) == 1 and isinstance(s_.targets[0], ast.Name) and isinstance(t, ast.Name) and s_.targets[0].id == t.id]
                first_read = readers[0] if readers else None
                at = first_read if first_read is not None else st
                if all(shared.precedes(fr.node, at, o) for o in ow) or (first_read is None and not ow):
                    guarded = True
                elif first_read is None:
                    # tested directly at the store: every overwrite must come after the test
                    guarded = all(not shared.precedes(fr.node, o, st) for o in ow)
        if not guarded:
            bad.append(st)
    R.check(not bad, rule, key_of(fr, "name-stores-guarded"), fr.site,
            f"all {len(stores)} store(s) to {mv}.name are guarded by 'the module was not already generated by another call'" if not bad else f"`{ast.unparse(bad[0])}` (line {bad[0].lineno}) also renames a module that another generator call produced and named",
            why="a module returned through a second generator (MosStack -> Series) is renamed in place: its name grows with every generator that hands it on and depends on the call history")



def qualified_names(repo: Repo, R):
    """The path qualifier is what keeps same-named definitions (and the generated modules of same-named generators)
    apart: it is dropped only where there is none (no Python module), never for a particular module name."""
    rule = "C09.5-distinct-modules-distinct-names"
    fi = repo.func("hdl21/qualname.py", "qualpath")
    a = fi.node.args.args[0].arg
    bad = []
    seen = set()
    for r in shared.returns_of(fi.node):
        conds0 = shared.resolved_conditions(fi.node, shared.path_conditions(fi.node, r))
        for v, cds in shared.alternatives(fi.node, r.value if r.value is not None else ast.Constant(None), conds0, at=r):
            cds = shared.resolved_conditions(fi.node, cds)
            t = ast.unparse(v)
            if t == f"[{a}.name]":
                seen.add("bare")
                if shared.conds_imply(cds, [(shared.parse_cond(f"{a}._source_info.pymodule is None"), True)]) is not True:
                    bad.append(f"the bare name `{t}` is returned although the definition has a Python module (under {[('' if p else 'not ') + ast.unparse(c) for c, p in cds]})")
            elif t == "None":
                seen.add("none")
                if shared.conds_imply(cds, [(shared.parse_cond(f"{a}.name is None"), True)]) is not True:
                    bad.append("None is returned for a named definition")
            elif pat.match(f"{a}._source_info.pymodule.__name__.split('.') + [{a}.name]", v) is not None:
                seen.add("path")
            elif pat.match(f"{a}._importpath + [{a}.name]", v) is not None or pat.match(f"getattr({a}, '_importpath', None) + [{a}.name]", v) is not None:
                seen.add("import")
            else:
                bad.append(f"`{t}` is not the module path plus the definition's name")
    R.check(not bad and {"bare", "path"} <= seen, rule, key_of(fi), fi.site,
            "qualpath: the Python module's dotted name plus the definition's name; bare name only when there is no Python module; None only when unnamed" + (f"; not so: {bad}" if bad else ""),
            why="definitions of one name from two places (a script and an exec'd / imported file) get one qualified name: their generated modules collide in the package, Module-valued parameters hash to one generated name")
    fq = repo.func("hdl21/qualname.py", "qualname")
    ok = True
    n = 0
    for r in shared.returns_of(fq.node):
        for v, cds in shared.alternatives(fq.node, r.value if r.value is not None else ast.Constant(None), shared.path_conditions(fq.node, r), at=r):
            n += 1
            t = ast.unparse(v)
            if t not in ("None", f"'.'.join(qualpath({fq.node.args.args[0].arg}))"):
                ok = False
    R.check(ok and n >= 2, rule, key_of(fq), fq.site, f"qualname joins the whole qualified path with '.': {ok}", why="the qualified name loses components of the path")


def generators_return_their_own(repo: Repo, R):
    """A generator body hands back a module it made (or another generator's result) — never one of its own parameters:
    `generator.run` names and caches whatever comes back, under this call."""
    rule = "C09.6-result-is-the-calls-own"
    n = 0
    for rel in ("hdl21/generators.py",):
        for fi in repo.funcs_in(rel):
            decos = [ast.unparse(d) for d in fi.node.decorator_list]
            if not any(d.split("(")[0].split(".")[-1] == "generator" for d in decos) or not fi.node.args.args:
                continue
            n += 1
            pa = fi.node.args.args[0].arg
            bad = []
            for r in shared.returns_of(fi.node):
                if r.value is None:
                    continue
                for v, _c in shared.alternatives(fi.node, r.value, shared.path_conditions(fi.node, r), at=r):
                    root = v
                    while isinstance(root, (ast.Attribute, ast.Subscript)):
                        root = root.value
                    if isinstance(root, ast.Name) and root.id == pa and not isinstance(v, ast.Call):
                        bad.append(ast.unparse(v))
            R.check(not bad, rule, key_of(fi), fi.site,
                    f"{fi.name} returns modules it created (or generated), never a parameter" if not bad else f"{fi.name} returns its parameter `{bad[0]}` itself",
                    why="calls with unequal parameters return one and the same module, and a hand-written module is renamed in place after the first call's parameters")
    if n < 3:
        raise AnalysisError(f"anchor-vanished: only {n} generator functions found in hdl21/generators.py")



def digest_over_json(fi: FuncInfo):
    """(ok, utf8): one hashlib digest object (any spelling of its construction), fed — through the constructor or
    update() — the JSON text of the parameters; utf8: the text is turned into bytes as UTF-8."""
    ctors = [c for c in au.calls_in(fi.node) if (dotted(c.func) or "") in ("hashlib.md5", "hashlib.sha1", "hashlib.sha256", "hashlib.blake2b")
             or ((dotted(c.func) or "") == "hashlib.new" and c.args and isinstance(c.args[0], ast.Constant) and c.args[0].value in ("md5", "sha1", "sha256", "blake2b"))]
    fed = []
    for c in ctors:
        data = c.args[1:] if (dotted(c.func) or "") == "hashlib.new" else c.args
        fed += [shared.prov(fi.node, a) for a in data]
    fed += [shared.prov(fi.node, c.args[0]) for c in au.calls_in(fi.node) if isinstance(c.func, ast.Attribute) and c.func.attr == "update" and c.args]
    ok = len(ctors) == 1 and len(fed) == 1 and "json.dumps(params" in ast.unparse(fed[0])
    utf8 = ok and any(pat.match(p_, fed[0]) is not None for p_ in ("bytes(json.dumps(params, *$_), encoding='utf-8')", "bytes(json.dumps(params, *$_), 'utf-8')", "json.dumps(params, *$_).encode('utf-8')", "json.dumps(params, *$_).encode()", "json.dumps(params, *$_).encode(encoding='utf-8')"))
    return ok, utf8



def _collection_elements(fn: ast.AST, coll: ast.AST):
    """What a collection expression holds, for the two ways of building one: a comprehension `[E for x in I]`, or a
    list that starts empty and is filled by `name.append(E)` inside one `for x in I` loop.
    -> ([(E alternative, conditions)], I, plain) — plain: one loop, no filter / break / continue; None if neither."""
    e = shared.prov(fn, coll)
    if isinstance(e, (ast.GeneratorExp, ast.ListComp)):
        plain = len(e.generators) == 1 and not e.generators[0].ifs
        return ([(e.elt, [])], e.generators[0].iter, plain)
    if isinstance(coll, ast.Name):
        inits = [st for st in au.walk_no_nested(fn) if isinstance(st, ast.Assign) and len(st.targets) == 1 and isinstance(st.targets[0], ast.Name) and st.targets[0].id == coll.id]
        if len(inits) != 1 or ast.unparse(inits[0].value) not in ("[]", "list()"):
            return None
        apps = [c for c in au.calls_in(fn) if isinstance(c.func, ast.Attribute) and c.func.attr == "append" and isinstance(c.func.value, ast.Name) and c.func.value.id == coll.id and len(c.args) == 1]
        others = [n for n in au.walk_no_nested(fn) if isinstance(n, ast.Attribute) and isinstance(n.value, ast.Name) and n.value.id == coll.id and n.attr not in ("append",)]
        if not apps or others:
            return None
        loops = {id(shared.enclosing(fn, a, (ast.For,))): shared.enclosing(fn, a, (ast.For,)) for a in apps}
        if len(loops) != 1:
            return None
        loop = next(iter(loops.values()))
        if loop is None or loop.orelse or shared.enclosing(fn, loop, (ast.For, ast.While)) is not None:
            return None
        outer = len(shared.path_conditions(fn, loop))

        def count(block):
            """appends per pass through the block: an int when it is the same on every path, else None"""
            tot = 0
            for st in block:
                if isinstance(st, ast.If):
                    a, b = count(st.body), count(st.orelse)
                    if a is None or b is None or a != b:
                        return None
                    tot += a
                elif isinstance(st, (ast.For, ast.While, ast.Try, ast.With)):
                    if any(x in apps for x in ast.walk(st)):
                        return None
                else:
                    tot += sum(1 for x in ast.walk(st) if any(x is a for a in apps))
            return tot

        plain = count(loop.body) == 1 and not any(isinstance(n, (ast.Break, ast.Continue, ast.Return)) for n in ast.walk(loop))
        elts = []
        for a in apps:
            inner = shared.path_conditions(fn, a)[outer:]
            for v, c in shared.alternatives(fn, a.args[0], list(inner), at=a):
                elts.append((v, shared.resolved_conditions(fn, c)))
        return (elts, loop.iter, plain)
    return None



def definition_site(repo: Repo, R):
    """The qualified path starts at the python module that *defines* the object.  source_info() finds it as the first
    stack frame outside Hdl21's own files — for the types that are pydantic dataclasses the constructor is called from
    inside pydantic, so frames of pydantic have to be passed over as well."""
    rule = "C09.5-distinct-modules-distinct-names"
    F_SI = "hdl21/source_info.py"
    fs = repo.func(F_SI, "source_info")
    # who records its definition site from inside a (pydantic-)dataclass constructor hook?
    hooked = []
    for ci in repo.classes_in("hdl21/"):
        if not any(d.split(".")[-1].split("(")[0] in ("datatype", "dataclass") for d in ci.decorators):
            continue
        for mname in ("__post_init__", "__post_init_post_parse__"):
            m = ci.methods.get(mname)
            if m is not None and any((dotted(c.func) or "").split(".")[-1] == "source_info" for c in au.calls_in(m.node)):
                hooked.append(ci.name)
    rets = [r for r in shared.returns_of(fs.node) if r.value is not None and "SourceInfo(" in ast.unparse(r.value)]
    if not rets:
        raise AnalysisError(f"anchor-vanished: no `return SourceInfo(..)` in {fs.site}")
    skips = True
    for r in rets:
        conds = shared.path_conditions(fs.node, r)
        txt = " ".join(ast.unparse(shared.prov(fs.node, t)) for t, _p in conds)
        callees = [repo.resolve_call(c, fs) for t, _p in conds for c in ast.walk(t) if isinstance(c, ast.Call)]
        via = any(cal is not None and hasattr(cal, "node") and "pydantic" in ast.unparse(cal.node) for cal in callees)
        skips = skips and ("pydantic" in txt or via)
    R.check(skips or not hooked, rule, key_of(fs), fs.site,
            f"{sorted(set(hooked))} record their definition site from a dataclass constructor hook (called by pydantic); source_info() passes over pydantic's frames: {skips}",
            why="every Generator / ExternalModule gets the path `pydantic._internal._dataclasses`: same-named generators of two python modules, as parameter values, name two different generated modules alike")
