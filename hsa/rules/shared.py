"""Rule instances shared by several properties.  Each function takes the rule id
under which the obligation is reported, so that the same structural fact can be
attached to every property of which it is a necessary condition."""

from __future__ import annotations

import ast
from typing import Iterable, Dict, List, Optional, Set, Tuple

from ..core import AnalysisError, ClassInfo, FuncInfo, Repo, dotted
from .. import au, pat
from .common import *  # noqa: F401,F403 (file anchors)
from .common import key_of, union, isinstance_handled, noreturn_set, class_names


# --------------------------------------------------------------------------
# small structural helpers
# --------------------------------------------------------------------------


def path_conditions(fn: ast.AST, node: ast.AST) -> List[Tuple[ast.AST, bool]]:
    """Branch conditions under which `node` executes: [(test, polarity)], outermost first."""
    par = au.parents(fn)
    out: List[Tuple[ast.AST, bool]] = []
    child = node
    while child in par:
        p = par[child]
        if isinstance(p, ast.If):
            if any(child is s for s in p.body):
                out.append((p.test, True))
            elif any(child is s for s in p.orelse):
                out.append((p.test, False))
        elif isinstance(p, ast.IfExp):
            if child is p.body:
                out.append((p.test, True))
            elif child is p.orelse:
                out.append((p.test, False))
        elif isinstance(p, ast.While):
            if any(child is s for s in p.body):
                out.append((p.test, True))
        child = p
    out.reverse()
    return out


def enclosing(fn: ast.AST, node: ast.AST, types) -> Optional[ast.AST]:
    par = au.parents(fn)
    n = node
    while n in par:
        n = par[n]
        if isinstance(n, types):
            return n
    return None


def enclosing_all(fn: ast.AST, node: ast.AST, types) -> List[ast.AST]:
    par = au.parents(fn)
    out = []
    n = node
    while n in par:
        n = par[n]
        if isinstance(n, types):
            out.append(n)
    return out


def stmt_index_path(fn: ast.AST, node: ast.AST):
    """The statement (direct child of some body list) that contains node."""
    par = au.parents(fn)
    n = node
    while n in par and not isinstance(n, ast.stmt):
        n = par[n]
    return n


def iter_direction(e: ast.AST, env: Dict[str, ast.AST], depth=0) -> Optional[int]:
    """+1 if iterating `e` visits the underlying sequence front to back, -1 if
    back to front, None if unknown."""
    if depth > 8:
        return None
    if isinstance(e, ast.Call) and isinstance(e.func, ast.Name):
        if e.func.id == "reversed" and len(e.args) == 1:
            d = iter_direction(e.args[0], env, depth + 1)
            return -d if d else None
        if e.func.id in ("list", "tuple", "iter") and len(e.args) == 1:
            return iter_direction(e.args[0], env, depth + 1)
        if e.func.id == "enumerate" and e.args:
            return iter_direction(e.args[0], env, depth + 1)
        if e.func.id == "range":
            if len(e.args) <= 2:
                return 1
            st = e.args[2]
            if isinstance(st, ast.Constant) and isinstance(st.value, int) and st.value != 0:
                return 1 if st.value > 0 else -1
            if isinstance(st, ast.UnaryOp) and isinstance(st.op, ast.USub) and isinstance(st.operand, ast.Constant):
                return -1
            return None
        return None
    if isinstance(e, ast.Subscript) and isinstance(e.slice, ast.Slice):
        s = e.slice
        step = s.step
        if s.lower is None and s.upper is None:
            if step is None:
                return iter_direction(e.value, env, depth + 1)
            if isinstance(step, ast.UnaryOp) and isinstance(step.op, ast.USub) and isinstance(step.operand, ast.Constant) and step.operand.value == 1:
                d = iter_direction(e.value, env, depth + 1)
                return -d if d else None
            if isinstance(step, ast.Constant) and step.value == 1:
                return iter_direction(e.value, env, depth + 1)
        return None
    if isinstance(e, ast.Name):
        if e.id in env:
            return iter_direction(env[e.id], env, depth + 1)
        return 1
    if isinstance(e, ast.Attribute):
        return 1
    return None


def loop_iters(fn: ast.AST) -> List[Tuple[ast.AST, ast.AST, ast.AST]]:
    """(loop-or-comprehension node, target, iter) for every loop in fn."""
    out = []
    for n in au.walk_no_nested(fn):
        if isinstance(n, (ast.For, ast.AsyncFor)):
            out.append((n, n.target, n.iter))
        elif isinstance(n, (ast.ListComp, ast.SetComp, ast.GeneratorExp, ast.DictComp)):
            for g in n.generators:
                out.append((n, g.target, g.iter))
    return out


# --------------------------------------------------------------------------
# F10b: __eq__/__hash__ use existing attributes and agree
# --------------------------------------------------------------------------


def instance_attrs(repo: Repo, ci: ClassInfo) -> Set[str]:
    """Attributes an instance of `ci` has: dataclass-style fields, every
    `self.x = ..` in any method of the class or its bases, methods, properties,
    class attributes."""
    out: Set[str] = set()
    for c in repo.mro(ci):
        out |= set(c.class_attrs)
        out |= set(c.methods)
        for m in c.methods.values():
            if not m.node.args.args:
                continue
            selfname = m.node.args.args[0].arg
            for n in ast.walk(m.node):
                if isinstance(n, ast.Attribute) and isinstance(n.ctx, ast.Store) and isinstance(n.value, ast.Name) and n.value.id == selfname:
                    out.add(n.attr)
        for st in c.node.body:
            if isinstance(st, ast.AnnAssign) and isinstance(st.target, ast.Name):
                out.add(st.target.id)
    return out


def self_attr_reads(fi: FuncInfo, var: Optional[str] = None) -> Set[str]:
    v = var or (fi.node.args.args[0].arg if fi.node.args.args else "self")
    out = set()
    for n in ast.walk(fi.node):
        if isinstance(n, ast.Attribute) and isinstance(n.value, ast.Name) and n.value.id == v and isinstance(n.ctx, ast.Load):
            out.add(n.attr)
    return out


def eq_hash_wellformed(repo: Repo, R, rule: str, rel: str, cls: str, identity_attr: str, name_attr: str, why: str):
    """`cls.__eq__` compares (identity of `identity_attr`, equality of `name_attr`)
    and `__hash__` hashes a subset, and both only touch attributes that exist."""
    ci = repo.cls(rel, cls)
    attrs = instance_attrs(repo, ci)
    for dunder in ("__eq__", "__hash__"):
        m = ci.methods.get(dunder)
        if m is None:
            R.bad(rule, f"{rel}::{cls}.{dunder}", ci.site, f"{cls} defines no {dunder}", why)
            continue
        reads = self_attr_reads(m)
        other = m.node.args.args[1].arg if len(m.node.args.args) > 1 else None
        oreads = self_attr_reads(m, other) if other else set()
        missing = sorted((reads | oreads) - attrs)
        if missing:
            R.bad(
                rule,
                f"{rel}::{cls}.{dunder}",
                m.site,
                f"{cls}.{dunder} reads attribute(s) {missing} that no {cls} instance has "
                f"(instance attributes: {sorted(a for a in attrs if not a.startswith('__'))})",
                why,
            )
            continue
        if dunder == "__eq__":
            ident = pat.find(f"self.{identity_attr} is {other}.{identity_attr}", m.node) or pat.find(f"{other}.{identity_attr} is self.{identity_attr}", m.node)
            named = pat.find(f"self.{name_attr} == {other}.{name_attr}", m.node) or pat.find(f"{other}.{name_attr} == self.{name_attr}", m.node)
            R.check(
                bool(ident) and bool(named),
                rule,
                f"{rel}::{cls}.{dunder}",
                m.site,
                f"{cls}.__eq__ compares identity of `{identity_attr}` and equality of `{name_attr}`"
                if ident and named
                else f"{cls}.__eq__ does not compare (`{identity_attr}` identity, `{name_attr}` equality): {ast.unparse(m.node.body[-1])}",
                why,
            )
        else:
            used = reads
            okh = used <= {identity_attr, name_attr} and bool(used)
            # identity must be hashed through id()
            id_ok = True
            if identity_attr in used:
                id_ok = bool(pat.find(f"id(self.{identity_attr})", m.node))
            R.check(
                okh and id_ok,
                rule,
                f"{rel}::{cls}.{dunder}",
                m.site,
                f"{cls}.__hash__ hashes a subset of what __eq__ compares ({sorted(used)}), identity through id()"
                if okh and id_ok
                else f"{cls}.__hash__ uses {sorted(used)}; __eq__ compares ({identity_attr} identity, {name_attr})",
                why,
            )


# --------------------------------------------------------------------------
# F11: connection state is only written by the owner methods
# --------------------------------------------------------------------------

_MUTATORS = {"pop", "popitem", "update", "clear", "setdefault", "__setitem__", "__delitem__"}
_SET_MUTATORS = {"add", "remove", "discard", "clear", "update", "pop", "difference_update", "intersection_update", "symmetric_difference_update"}


def conns_writers(repo: Repo, prefixes=("hdl21/", "pdks/")) -> List[Tuple[FuncInfo, ast.AST, str]]:
    """Every construct that mutates an `.conns` mapping or a `._connected_ports` set."""
    out = []
    for fi in repo.all_funcs():
        if not fi.file.rel.startswith(prefixes):
            continue
        if ".<locals>." in fi.qual:
            continue
        ann = _param_annotations(fi)
        for n in ast.walk(fi.node):
            # X.conns[k] = v / del X.conns[k]
            if isinstance(n, ast.Subscript) and isinstance(n.ctx, (ast.Store, ast.Del)) and isinstance(n.value, ast.Attribute) and n.value.attr == "conns":
                if _non_instance_receiver(n.value.value, ann):
                    continue
                out.append((fi, n, "conns[..] store/del"))
            # X.conns = ...
            if isinstance(n, ast.Attribute) and n.attr == "conns" and isinstance(n.ctx, (ast.Store, ast.Del)):
                if _non_instance_receiver(n.value, ann):
                    continue
                out.append((fi, n, "conns rebinding"))
            if isinstance(n, ast.Call) and isinstance(n.func, ast.Attribute):
                recv = n.func.value
                if isinstance(recv, ast.Attribute) and recv.attr == "conns" and n.func.attr in _MUTATORS:
                    if _non_instance_receiver(recv.value, ann):
                        continue
                    out.append((fi, n, f"conns.{n.func.attr}()"))
                if isinstance(recv, ast.Attribute) and recv.attr == "_connected_ports" and n.func.attr in _SET_MUTATORS:
                    out.append((fi, n, f"_connected_ports.{n.func.attr}()"))
            if isinstance(n, ast.Attribute) and n.attr == "_connected_ports" and isinstance(n.ctx, (ast.Store, ast.Del)):
                out.append((fi, n, "_connected_ports rebinding"))
            if isinstance(n, ast.AugAssign) and isinstance(n.target, ast.Attribute) and n.target.attr in ("conns", "_connected_ports"):
                out.append((fi, n, f"{n.target.attr} augmented assignment"))
    return out


def _param_annotations(fi: FuncInfo) -> Dict[str, str]:
    out = {}
    a = fi.node.args
    for p in list(a.posonlyargs) + list(a.args) + list(a.kwonlyargs):
        if p.annotation is not None:
            out[p.arg] = ast.unparse(p.annotation)
    return out


_NON_INSTANCE_TYPES = ("FlattenedInstance", "SeriesParams", "Params")


def _non_instance_receiver(recv: ast.AST, ann: Dict[str, str]) -> bool:
    """Receiver is statically known not to be an Instance-like object
    (e.g. `FlattenedInstance.conns`, a param-class field called `conns`)."""
    if isinstance(recv, ast.Name) and recv.id in ann:
        return any(t in ann[recv.id] for t in _NON_INSTANCE_TYPES)
    if isinstance(recv, ast.Name) and recv.id in ("params", "p"):
        return True
    return False


def owner_only_writes(repo: Repo, R, rule: str, why: str):
    """Only `_Instance.__init__/connect/replace/disconnect` write `conns`; only
    those and constructors (`= set()`) write `_connected_ports`."""
    owners = {"_Instance.__init__", "_Instance.connect", "_Instance.replace", "_Instance.disconnect"}
    writers = conns_writers(repo)
    n_owner = 0
    for fi, node, what in writers:
        if fi.file.rel == F_INSTANCE and fi.qual in owners:
            n_owner += 1
            continue
        # constructors initialising their own empty set
        if what == "_connected_ports rebinding" and fi.name in ("__init__", "__post_init__"):
            par = au.parents(fi.node).get(node)
            if isinstance(par, (ast.Assign, ast.AnnAssign)) and par.value is not None and ast.unparse(par.value) in ("set()", "WeakSet()"):
                n_owner += 1
                continue
        R.bad(
            rule,
            f"{fi.file.rel}::{fi.qual}::{what}",
            fi.at(node),
            f"{what} outside the owner API: `{ast.unparse(stmt_index_path(fi.node, node))[:100]}`",
            why,
        )
    if n_owner < 9:
        raise AnalysisError(f"anchor-vanished: only {n_owner} owner writes of conns/_connected_ports found (expected >= 9)")
    R.ok(rule, "repo-wide", F_INSTANCE, f"{len(writers)} writes of conns/_connected_ports found repo-wide, all {n_owner} inside _Instance.connect/replace/disconnect or constructors")
    # embedded positive example: the scanner must see a raw write
    probe = ast.parse("def f(inst, s):\n    inst.conns['a'] = s\n    s._connected_ports.add(1)\n")
    hits = 0
    for n in ast.walk(probe):
        if isinstance(n, ast.Subscript) and isinstance(n.ctx, ast.Store) and isinstance(n.value, ast.Attribute) and n.value.attr == "conns":
            hits += 1
        if isinstance(n, ast.Call) and isinstance(n.func, ast.Attribute) and isinstance(n.func.value, ast.Attribute) and n.func.value.attr == "_connected_ports":
            hits += 1
    if hits != 2:
        raise AnalysisError("self-check of the conns-writer scanner failed")


# --------------------------------------------------------------------------
# re-attaching a clause of one property to another
# --------------------------------------------------------------------------


ATTACHING: List[str] = []  # checks currently being run as attachments (c05 attaches c18 and c18 attaches c05: not inside each other)


class Retag:
    """Reporter view that files obligations under another rule id.

    `fn(rule) -> new rule id | None` (None drops the obligation).  `why` may be
    overridden to say how the clause bears on the property it is attached to.
    Floors set by the wrapped function are dropped (the attaching module sets its own)."""

    def __init__(self, R, fn, why=None):
        import inspect

        self._R, self._why = R, why
        self._n = 0  # obligations that passed the filter
        self._errors: List[str] = []  # analysis errors of sub-rules of the attached check
        # fn(rule) or fn(rule, key)
        try:
            two = len(inspect.signature(fn).parameters) >= 2
        except (TypeError, ValueError):
            two = False
        self._fn2 = fn if two else (lambda rule, key: fn(rule))

    def __getattr__(self, k):
        return getattr(self._R, k)

    def ok(self, rule, key, site, detail, nontrivial=True):
        r = self._fn2(rule, key)
        if r:
            self._n += 1
            self._R.ok(r, key, site, detail, nontrivial)

    def bad(self, rule, key, site, detail, why=""):
        r = self._fn2(rule, key)
        if r:
            self._n += 1
            self._R.bad(r, key, site, detail, self._why or why)

    def check(self, cond, rule, key, site, detail, why="", nontrivial=True):
        r = self._fn2(rule, key)
        if r:
            self._n += 1
            return self._R.check(cond, r, key, site, detail, self._why or why, nontrivial)
        return cond

    def run(self, fn, *args, **kw):
        """A sub-rule of the attached check that cannot be analysed is an analysis error of the property the check belongs to
        (where it is reported); here it only matters if it leaves the attachment empty — see Reporter.run."""
        try:
            return fn(*args, **kw)
        except AnalysisError as e:
            self._errors.append(f"{getattr(fn, '__name__', fn)}: {e}")
        except Exception as e:  # noqa: BLE001
            self._errors.append(f"{getattr(fn, '__name__', fn)}: internal error {type(e).__name__}: {e}")
        return None

    def floor(self, rule, n):
        pass


# --------------------------------------------------------------------------
# refactoring-robust primitives (used on the canonical form, see canon.py)
# --------------------------------------------------------------------------


def prov(fn: ast.AST, e: ast.AST, depth: int = 8, keep: Iterable[str] = ()) -> ast.AST:
    """Provenance of a value: `e` with every singly-bound local replaced by its defining expression
    (pure or not), recursively.  Names of temporaries and the number of intermediate steps vanish.
    Use only to ask where a value comes from, never to duplicate evaluation."""
    env = au.local_defs(fn)
    if keep:
        env = {k: v for k, v in env.items() if k not in set(keep)}
    return au.expand(e, env, depth=depth)


def prov_text(fn: ast.AST, e: ast.AST, depth: int = 8, keep: Iterable[str] = ()) -> str:
    return ast.unparse(prov(fn, e, depth, keep))


def cond_match(fn: ast.AST, node: ast.AST, pattern: str, pol: bool = True, use_prov: bool = True) -> bool:
    """`node` executes only when a test matching `pattern` has truth value `pol`."""
    from .. import pat

    for t, p in path_conditions(fn, node):
        if p != pol:
            continue
        if pat.match(pattern, t) is not None:
            return True
        if use_prov and pat.match(pattern, prov(fn, t)) is not None:
            return True
    return False


def calls_matching(fn: ast.AST, pattern: str, use_prov: bool = True):
    """Calls in fn (nested functions excluded) whose text — as written, or with locals replaced by their
    provenance — matches the pattern.  Yields (call, bindings)."""
    from .. import pat

    out = []
    for c in au.calls_in(fn):
        b = pat.match(pattern, c)
        if b is None and use_prov:
            b = pat.match(pattern, prov(fn, c))
        if b is not None:
            out.append((c, b))
    return out


def returns_of(fn: ast.AST):
    return [n for n in au.walk_no_nested(fn) if isinstance(n, ast.Return)]


def fails_unless(fn: ast.AST, pattern: str, noret=frozenset(), contains: bool = False) -> Optional[ast.If]:
    """An `if` whose (positive, canonical) test matches `pattern` — or, with contains=True, has a conjunct /
    sub-expression matching it — and whose else-branch ends by raising."""
    from .. import pat

    for n in au.walk_no_nested(fn):
        if isinstance(n, ast.If) and n.orelse and au.raises(n.orelse, noret):
            if pat.match(pattern, n.test) is not None:
                return n
            if contains and isinstance(n.test, ast.BoolOp) and isinstance(n.test.op, ast.And) and any(pat.match(pattern, v) is not None for v in n.test.values):
                return n
    return None


def fails_if(fn: ast.AST, pattern: str, noret=frozenset(), contains: bool = False) -> Optional[ast.If]:
    """An `if` whose test matches `pattern` (or, with contains=True, has a disjunct matching it) and whose body ends by raising."""
    from .. import pat

    for n in au.walk_no_nested(fn):
        if isinstance(n, ast.If) and au.raises(n.body, noret):
            if pat.match(pattern, n.test) is not None:
                return n
            if contains and isinstance(n.test, ast.BoolOp) and isinstance(n.test.op, ast.Or) and any(pat.match(pattern, v) is not None for v in n.test.values):
                return n
    return None


def executes_before(fn: ast.AST, a: ast.AST, b: ast.AST) -> bool:
    """Whenever `b` executes, `a` has executed before it (structural dominance on the canonical form):
    `a` comes first in program order, every branch condition `a` is under also governs `b` (same test node,
    same polarity), and `a` is not inside a loop, try body or handler that `b` is outside of."""
    order = {id(n): k for k, n in enumerate(ast.walk_preorder(fn))} if hasattr(ast, "walk_preorder") else None
    if order is None:
        order = {}
        k = 0
        stack = [fn]
        while stack:
            n = stack.pop()
            order[id(n)] = k
            k += 1
            stack.extend(reversed(list(ast.iter_child_nodes(n))))
    if order.get(id(a), 1 << 30) >= order.get(id(b), -1):
        return False
    ca = {(id(t), p) for t, p in path_conditions(fn, a)}
    cb = {(id(t), p) for t, p in path_conditions(fn, b)}
    if not ca <= cb:
        return False
    par = au.parents(fn)

    def scopes(n):
        out = set()
        while n in par:
            p = par[n]
            if isinstance(p, (ast.For, ast.While, ast.AsyncFor, ast.ExceptHandler, ast.ListComp, ast.DictComp, ast.SetComp, ast.GeneratorExp, ast.FunctionDef, ast.Lambda)):
                out.add(id(p))
            n = p
        return out

    return scopes(a) <= scopes(b)


# --------------------------------------------------------------------------
# propositional reasoning over path conditions (atoms = non-boolean sub-tests, by canonical text)
# --------------------------------------------------------------------------


def _atom(e: ast.AST) -> Tuple[str, bool]:
    """(canonical atom text, polarity): `a is b` / `b is a` are one atom; integer order comparisons are
    normalised through au.cmp_norm so that `i >= w`, `not i < w`, `w <= i` are one atom and `i < w` its negation."""
    if isinstance(e, ast.Compare) and len(e.ops) == 1:
        op = e.ops[0]
        if isinstance(op, (ast.Is, ast.IsNot)):
            a, b = sorted([ast.unparse(e.left), ast.unparse(e.comparators[0])])
            return f"{a} is {b}", isinstance(op, ast.Is)
        if isinstance(op, (ast.In, ast.NotIn)):
            return f"{ast.unparse(e.left)} in {ast.unparse(e.comparators[0])}", isinstance(op, ast.In)
        if isinstance(op, (ast.Lt, ast.LtE, ast.Gt, ast.GtE)):
            try:
                k = au.cmp_norm(e)
                kn = au.cmp_norm(ast.UnaryOp(ast.Not(), e))
            except Exception:
                k = kn = None
            if k is not None and kn is not None:
                return (f"{k[1]} <= 0", True) if k[1] <= kn[1] else (f"{kn[1]} <= 0", False)
        if isinstance(op, (ast.Eq, ast.NotEq)):
            a, b = sorted([ast.unparse(e.left), ast.unparse(e.comparators[0])])
            return f"{a} == {b}", isinstance(op, ast.Eq)
    return ast.unparse(e), True


def _int_atom(e: ast.AST) -> Optional[Tuple[str, str, int]]:
    """(term text, operator, constant) for a comparison of one term with an integer constant: `len(x) > 1`, `0 == n`."""
    if not (isinstance(e, ast.Compare) and len(e.ops) == 1):
        return None
    ops = {ast.Lt: "<", ast.LtE: "<=", ast.Gt: ">", ast.GtE: ">=", ast.Eq: "==", ast.NotEq: "!="}
    flip = {"<": ">", "<=": ">=", ">": "<", ">=": "<=", "==": "==", "!=": "!="}
    op = ops.get(type(e.ops[0]))
    if op is None:
        return None
    l, r = e.left, e.comparators[0]

    def const(x):
        if isinstance(x, ast.Constant) and isinstance(x.value, int) and not isinstance(x.value, bool):
            return x.value
        if isinstance(x, ast.UnaryOp) and isinstance(x.op, ast.USub) and isinstance(x.operand, ast.Constant) and isinstance(x.operand.value, int):
            return -x.operand.value
        return None

    if const(r) is not None and const(l) is None:
        return ast.unparse(l), op, const(r)
    if const(l) is not None and const(r) is None:
        return ast.unparse(r), flip[op], const(l)
    return None


def _cmp(v: int, op: str, c: int) -> bool:
    return {"<": v < c, "<=": v <= c, ">": v > c, ">=": v >= c, "==": v == c, "!=": v != c}[op]


def _bool_eval(e: ast.AST, val: Dict[str, object]) -> bool:
    if isinstance(e, ast.BoolOp):
        vs = [_bool_eval(v, val) for v in e.values]
        return all(vs) if isinstance(e.op, ast.And) else any(vs)
    if isinstance(e, ast.UnaryOp) and isinstance(e.op, ast.Not):
        return not _bool_eval(e.operand, val)
    ia = _int_atom(e)
    if ia is not None and ("#" + ia[0]) in val:
        return _cmp(val["#" + ia[0]], ia[1], ia[2])
    k, pol = _atom(e)
    return val[k] == pol


def _bool_atoms(e: ast.AST, out: Set[str], ints: Optional[Dict[str, Set[int]]] = None) -> None:
    if isinstance(e, ast.BoolOp):
        for v in e.values:
            _bool_atoms(v, out, ints)
    elif isinstance(e, ast.UnaryOp) and isinstance(e.op, ast.Not):
        _bool_atoms(e.operand, out, ints)
    else:
        ia = _int_atom(e)
        if ia is not None and ints is not None:
            ints.setdefault(ia[0], set()).add(ia[2])
        else:
            out.add(_atom(e)[0])


def conds_imply(premises: List[Tuple[ast.AST, bool]], conclusion: List[Tuple[ast.AST, bool]], max_atoms: int = 12) -> Optional[bool]:
    """Do the premises [(test, polarity)] imply every conclusion?  Propositionally over the non-boolean sub-tests
    (identified by canonical text, so `a is b` and `b is a` are one atom), except that comparisons of one term with
    integer constants (`len(x) == 0`, `len(x) > 1`, `1 == len(x)`) are decided arithmetically: the term ranges over
    the integers around the constants it is compared with (non-negative ones for `len(..)`).  None when too many atoms."""
    import itertools

    atoms: Set[str] = set()
    ints: Dict[str, Set[int]] = {}
    for t, _p in list(premises) + list(conclusion):
        _bool_atoms(t, atoms, ints)
    names = sorted(atoms)
    terms = sorted(ints)
    if len(names) + 2 * len(terms) > max_atoms:
        return None
    ranges = []
    for tm in terms:
        cs = ints[tm]
        lo, hi = min(cs) - 1, max(cs) + 1
        vals = [v for v in range(lo, hi + 1) if not (tm.startswith("len(") and v < 0)]
        ranges.append(vals)
    for bits in itertools.product((False, True), repeat=len(names)):
        for ivals in itertools.product(*ranges):
            val: Dict[str, object] = dict(zip(names, bits))
            for tm, v in zip(terms, ivals):
                val["#" + tm] = v
            if all(_bool_eval(t, val) == p for t, p in premises) and not all(_bool_eval(t, val) == p for t, p in conclusion):
                return False
    return True


def parse_cond(text: str) -> ast.AST:
    return ast.parse(text, mode="eval").body


def precedes(fn: ast.AST, a: ast.AST, b: ast.AST) -> bool:
    """`a` comes before `b` in program order and the two are not in mutually exclusive branches."""
    order = {}
    k = 0
    stack = [fn]
    while stack:
        n = stack.pop()
        order[id(n)] = k
        k += 1
        stack.extend(reversed(list(ast.iter_child_nodes(n))))
    if order.get(id(a), 1 << 30) >= order.get(id(b), -1):
        return False
    ca = {id(t): p for t, p in path_conditions(fn, a)}
    cb = {id(t): p for t, p in path_conditions(fn, b)}
    return not any(k in cb and cb[k] != p for k, p in ca.items())


def raising_leaves(fn: ast.AST, noret=frozenset()) -> List[ast.stmt]:
    out = []
    for n in au.walk_no_nested(fn):
        if isinstance(n, ast.Raise):
            out.append(n)
        elif isinstance(n, ast.Expr) and isinstance(n.value, ast.Call):
            nm = au.call_name(n.value)
            if nm in noret or nm.split(".")[-1] in noret:
                out.append(n)
    return out


def raises_under(fn: ast.AST, assumptions: List[Tuple[str, bool]], noret=frozenset()) -> bool:
    """Some raising statement of fn is reached whenever the assumptions [(test text, truth value)] hold
    (propositionally, over the path conditions of the canonical form)."""
    prem = [(parse_cond(t), p) for t, p in assumptions]
    for r in raising_leaves(fn, noret):
        pcs = path_conditions(fn, r)
        if conds_imply(prem, pcs) is True:
            return True
        # the same with flag locals replaced by what they were computed from
        if conds_imply(prem, [(prov(fn, t), p) for t, p in pcs]) is True:
            return True
        if conds_imply(prem, resolved_conditions(fn, pcs)) is True:
            return True
        # both sides written over the function's inputs (premises may name a local the conditions reach only through
        # another local: `n = len(xs); if n > 1`)
        prem_x = [(prov(fn, t), p) for t, p in prem]
        if conds_imply(prem_x, [(prov(fn, t), p) for t, p in resolved_conditions(fn, pcs)]) is True:
            return True
    return False


def cond_args(fn: ast.AST, node: ast.AST, pattern: str, pol: bool = True):
    """Bindings of the first path condition of `node` (with the given polarity) that matches `pattern`."""
    from .. import pat

    for t, p in path_conditions(fn, node):
        if p != pol:
            continue
        b = pat.match(pattern, t)
        if b is None:
            b = pat.match(pattern, prov(fn, t))
        if b is not None:
            return b
    return {}


def _contradict(c1, c2) -> bool:
    d = {id(t): p for t, p in c1}
    return any(id(t) in d and d[id(t)] != p for t, p in c2)


_cfg_cache: Dict[int, object] = {}


def _cfg_of(fn: ast.AST):
    from ..cfg import CFG

    k = id(fn)
    if k not in _cfg_cache:
        _cfg_cache[k] = (fn, CFG(fn, lambda n: False))  # keep fn alive so that the id stays unique
    return _cfg_cache[k][1]


def _cfg_node_at(fn: ast.AST, node: ast.AST):
    """The CFG node in which `node` (a statement or an expression inside one) is evaluated."""
    cfg = _cfg_of(fn)
    par = au.parents(fn)
    x = node
    while x is not None:
        ns = cfg.nodes_for(x)
        if ns:
            # an expression that is the test of an if/while belongs to the test node, not to a statement of a branch
            return ns[0]
        x = par.get(x)
    return None


def reaching_values(fn: ast.AST, name: str, at: ast.AST) -> Optional[List[Tuple[ast.AST, List[Tuple[ast.AST, bool]]]]]:
    """The plain assignments `name = <expr>` that may reach the evaluation of `at`, with the path conditions of
    each; None when some other kind of binding (parameter, loop variable, unpacking, augmented assignment) reaches."""
    from ..cfg import reaching_defs, def_value

    cfg = _cfg_of(fn)
    cn = _cfg_node_at(fn, at)
    if cn is None:
        return None
    ids = reaching_defs(cfg, name)[cn.id]
    out = []
    for d in sorted(ids):
        if d == -1:
            return None
        v = def_value(cfg.nodes[d], name)
        if v is None:
            return None
        out.append((v, path_conditions(fn, cfg.nodes[d].ast), cfg.nodes[d].ast))
    # a definition that reaches the use by going *around* a branch in which the name is bound again unconditionally
    # does so only when that branch is not taken: it carries the negated branch condition
    if len(out) > 1:
        par = au.parents(fn)
        refined = []
        for v, cds, st in out:
            extra = []
            for v2, cds2, st2 in out:
                if st2 is st or not cds2:
                    continue
                t2, pol2 = cds2[-1]
                # the If statement st2 sits in, at the top level of one of its branches
                iff = par.get(st2)
                if not (isinstance(iff, ast.If) and iff.test is t2):
                    continue
                inside = st
                is_inside = False
                while inside in par:
                    inside = par[inside]
                    if inside is iff:
                        is_inside = True
                        break
                if is_inside:
                    continue
                if executes_before(fn, st, iff) and not any(t is t2 for t, _p in cds):
                    extra.append((t2, not pol2))
            refined.append((v, list(cds) + extra, st))
        out = refined
    return out


def param_alternatives(fn: ast.AST, pname: str, at: ast.AST):
    """What the parameter `pname` holds when `at` is evaluated: [(expression, conditions)] with the expression None for
    "the argument as it was given".  A definition that reaches `at` around a branch which rebinds the name carries the
    negated condition of that branch.  None when a binding of another kind (loop target, unpacking) reaches."""
    from ..cfg import reaching_defs, def_value

    cfg = _cfg_of(fn)
    cn = _cfg_node_at(fn, at)
    if cn is None:
        return None
    items = []
    for d in sorted(reaching_defs(cfg, pname)[cn.id]):
        if d == -1:
            items.append((None, [], None))
            continue
        v = def_value(cfg.nodes[d], pname)
        if v is None:
            return None
        items.append((v, list(path_conditions(fn, cfg.nodes[d].ast)), cfg.nodes[d].ast))
    par = au.parents(fn)
    out = []
    for v, cds, st in items:
        extra = []
        for v2, cds2, st2 in items:
            if st2 is None or st2 is st or not cds2:
                continue
            t2, pol2 = cds2[-1]
            iff = par.get(st2)
            if not (isinstance(iff, ast.If) and iff.test is t2):
                continue
            inside, is_inside = st, False
            while inside is not None and inside in par:
                inside = par[inside]
                if inside is iff:
                    is_inside = True
                    break
            if is_inside:
                continue
            if (st is None or executes_before(fn, st, iff)) and not any(t is t2 for t, _p in cds):
                extra.append((t2, not pol2))
        out.append((v, cds + extra))
    return out


def alternatives(fn: ast.AST, e: ast.AST, conds: List[Tuple[ast.AST, bool]], depth: int = 5, at: Optional[ast.AST] = None) -> List[Tuple[ast.AST, List[Tuple[ast.AST, bool]]]]:
    """`_alternatives`, with the expressions that substitution built brought into canonical expression form (`[] + x` is `x`,
    `(lambda a: f(a))(y)` is `f(y)`, ...) — the same form the functions themselves are in."""
    import copy as _c
    from ..canon import _ExprNorm

    out = []
    for v, c in _alternatives(fn, e, conds, depth, at):
        if v is not e:
            try:
                v = ast.fix_missing_locations(_ExprNorm().visit(_c.deepcopy(v)))
            except Exception:  # noqa: BLE001 — normalisation is an optimisation of the comparison, never a requirement
                pass
        out.append((v, c))
    return out


def _alternatives(fn: ast.AST, e: ast.AST, conds: List[Tuple[ast.AST, bool]], depth: int = 5, at: Optional[ast.AST] = None) -> List[Tuple[ast.AST, List[Tuple[ast.AST, bool]]]]:
    """The values `e` can take at a use governed by `conds`, as [(expression over parameters, conditions)]:
    singly-bound locals are replaced by their definition; a local bound on several branches (the canonical
    form of a conditional expression, or of per-branch temporaries) gives one alternative per definition that
    reaches the use (reaching definitions on the CFG when the place of use `at` is known — `e` itself when it is
    a node of fn) and does not contradict the conditions collected so far; conditional expressions are split."""
    env = au.local_env(fn)
    if at is None and any(x is e for x in ast.walk(fn)):
        at = e
    e = au.expand(e, env)
    if depth <= 0:
        return [(e, list(conds))]
    params = {a.arg for a in ast.walk(fn.args) if isinstance(a, ast.arg)} if hasattr(fn, "args") else set()
    inner_scope = set()
    for c in ast.walk(e):
        if isinstance(c, (ast.ListComp, ast.SetComp, ast.DictComp, ast.GeneratorExp, ast.Lambda)):
            for x in ast.walk(c):
                if x is not c:
                    inner_scope.add(id(x))
            # the first iterable of a comprehension is evaluated outside of it
            if not isinstance(c, ast.Lambda):
                for x in ast.walk(c.generators[0].iter):
                    inner_scope.discard(id(x))
    for n in ast.walk(e):
        if isinstance(n, ast.IfExp) and id(n) not in inner_scope:
            out = []
            for val, pol in ((n.body, True), (n.orelse, False)):
                e2 = _replace(e, n, val)
                out += _alternatives(fn, e2, list(conds) + [(n.test, pol)], depth - 1, at)
            return out
        if isinstance(n, ast.Name) and isinstance(n.ctx, ast.Load) and n.id not in env and n.id not in params and id(n) not in inner_scope and not n.id.startswith("__alt"):
            defs = None
            flow = False
            if at is not None:
                rv = reaching_values(fn, n.id, at)
                if rv is not None:
                    defs = [(v, cds, st) for v, cds, st in rv]
                    flow = True
            if defs is None:
                defs = []
                for st in au.walk_no_nested(fn):
                    if isinstance(st, ast.Assign) and len(st.targets) == 1 and isinstance(st.targets[0], ast.Name) and st.targets[0].id == n.id:
                        defs.append((st.value, path_conditions(fn, st), st))
                if len(defs) < 2:
                    defs = []
            if defs:
                out = []
                for v, cds, st in defs:
                    if _contradict(cds, conds):
                        continue
                    if not flow and any(isinstance(x, ast.Name) and x.id == n.id for x in ast.walk(v)):
                        continue  # re-binding in terms of itself (x = f(x)): needs the flow-sensitive path
                    merged = list(conds) + [c for c in cds if (id(c[0]), c[1]) not in {(id(t), p) for t, p in conds}]
                    if not flow:
                        out += _alternatives(fn, _replace(e, n, v), merged, depth - 1, st)
                        continue
                    # the value is resolved where it was computed (its own locals as they reach that statement); the other
                    # locals of `e` are resolved where `e` is used
                    _alt_counter[0] += 1
                    ph = ast.Name(f"__alt{_alt_counter[0]}", ast.Load())
                    e2 = _replace(e, n, ph)
                    for v2, c2 in _alternatives(fn, v, merged, depth - 1, st):
                        for v3, c3 in _alternatives(fn, e2, c2, depth - 1, at):
                            out.append((_subst_placeholder(v3, ph.id, v2), c3))
                if out:
                    return out
    return [(e, list(conds))]


_alt_counter = [0]


def _subst_placeholder(root: ast.AST, name: str, val: ast.AST) -> ast.AST:
    import copy as _c

    class S(ast.NodeTransformer):
        def visit_Name(self, node):
            return _c.deepcopy(val) if node.id == name else node

    return ast.fix_missing_locations(S().visit(_c.deepcopy(root)))


def resolved_conditions(fn: ast.AST, conds: List[Tuple[ast.AST, bool]]) -> List[Tuple[ast.AST, bool]]:
    """Path conditions with the locals in each test replaced by the single definition that reaches the test
    (flow-sensitively); tests whose locals have several reaching definitions are kept as written."""
    out = []
    for t, pol in conds:
        alts = alternatives(fn, t, [], at=t)
        out.append((alts[0][0], pol) if len(alts) == 1 else (t, pol))
    return out


def _replace(root: ast.AST, old: ast.AST, new: ast.AST) -> ast.AST:
    import copy as _c

    class Copy(ast.NodeTransformer):
        def generic_visit(self, node):
            if node is old:
                return _c.deepcopy(new)
            node = _c.copy(node)
            for f, v in ast.iter_fields(node):
                if isinstance(v, list):
                    setattr(node, f, [self.generic_visit(x) if isinstance(x, ast.AST) else x for x in v])
                elif isinstance(v, ast.AST):
                    setattr(node, f, self.generic_visit(v))
            return node

    return ast.fix_missing_locations(Copy().generic_visit(root))


def admissible_kinds(fn: ast.AST, node: ast.AST, subject: str, universe: Set[str]) -> Set[str]:
    """The classes (bare names, out of `universe` plus '<other>') the subject can have when `node` executes,
    read off the isinstance tests among its path conditions."""
    adm = set(universe) | {"<other>"}
    for t, pol in path_conditions(fn, node):
        r = au.isinstance_classes(t) if isinstance(t, ast.Call) else None
        if r is None or ast.unparse(r[0]) != subject:
            continue
        ks = {ast.unparse(c).split(".")[-1] for c in r[1]}
        adm = (adm & ks) if pol else (adm - ks)
    return adm


def presence(fn: ast.AST, node: ast.AST, table: str, key: str) -> Optional[bool]:
    """Whether `node` executes with `key` known to be in `table` (True), known to be absent (False) or neither
    (None) — for both spellings of the test: `key in table`, and `table.get(key) is None` (possibly through a local)."""
    for t, pol in path_conditions(fn, node):
        txt = prov_text(fn, t)
        if txt == f"{key} in {table}":
            return pol
        if txt in (f"{table}.get({key}) is None", f"{table}.get({key}, None) is None"):
            return not pol
    return None


def memo_discipline(fn: ast.AST, table: str, key: str) -> Tuple[bool, str]:
    """`fn` memoises its result in `table` under `key`: every return hands out the table's entry (read when the
    key is present, or after the miss-branch stored it) or the very object it has just stored under the key;
    the store happens only on a miss.  Spellings (early return on a hit, fill-on-miss with one exit, `.get`) do not matter."""
    def is_entry(e):
        return isinstance(e, ast.Subscript) and ast.unparse(e.slice) == key and prov_text(fn, e.value) == table

    stores = [st for st in au.stmts(fn) if isinstance(st, ast.Assign) and any(is_entry(t) for t in st.targets)]
    if not stores:
        return False, f"nothing is stored into {table}[{key}]"
    if any(presence(fn, st, table, key) is not False for st in stores):
        return False, f"{table}[{key}] is (re)written although the key may be present"
    rets = returns_of(fn)
    if not rets:
        return False, "no return"
    for r in rets:
        v = r.value
        if v is None:
            return False, "returns nothing"
        if is_entry(v) or is_entry(prov(fn, v, depth=1)):
            if presence(fn, r, table, key) is True or any(precedes(fn, st, r) for st in stores):
                continue
            return False, f"`{ast.unparse(r)}` reads the table without a hit or a preceding store"
        same = [st for st in stores if (isinstance(v, ast.Name) and isinstance(st.value, ast.Name) and st.value.id == v.id) or ast.unparse(st.value) == ast.unparse(v)]
        if same and any(precedes(fn, st, r) for st in same) and (isinstance(v, ast.Name) or au._is_pure(v)):
            continue
        return False, f"`{ast.unparse(r)}` returns an object that is not the table's entry"
    return True, f"returns {table}[{key}] on a hit and the stored object on a miss"


def param_rebound(fn: ast.AST, name: str) -> List[ast.AST]:
    """Statements of fn that bind the parameter `name` again (assignment, augmented assignment, loop target, with-as, del)."""
    out = []
    for n in au.walk_no_nested(fn):
        tg = []
        if isinstance(n, ast.Assign):
            tg = n.targets
        elif isinstance(n, (ast.AugAssign, ast.AnnAssign)):
            tg = [n.target]
        elif isinstance(n, (ast.For, ast.AsyncFor)):
            tg = [n.target]
        elif isinstance(n, ast.Delete):
            tg = n.targets
        elif isinstance(n, ast.NamedExpr):
            tg = [n.target]
        for t in tg:
            if any(isinstance(x, ast.Name) and x.id == name and isinstance(x.ctx, (ast.Store, ast.Del)) for x in ast.walk(t)):
                out.append(n)
    return out


def module_level_state(tree: ast.Module) -> List[str]:
    """Module-level containers (dict / list / set displays or constructors) that code of the file writes to."""
    out = []
    for st in tree.body:
        if isinstance(st, (ast.Assign, ast.AnnAssign)) and st.value is not None:
            v = st.value
            tg = st.targets[0] if isinstance(st, ast.Assign) else st.target
            if not isinstance(tg, ast.Name):
                continue
            if not (isinstance(v, (ast.Dict, ast.List, ast.Set)) or (isinstance(v, ast.Call) and isinstance(v.func, ast.Name) and v.func.id in ("dict", "list", "set", "defaultdict", "OrderedDict"))):
                continue
            nm = tg.id
            written = any(
                (isinstance(x, ast.Subscript) and isinstance(x.ctx, (ast.Store, ast.Del)) and isinstance(x.value, ast.Name) and x.value.id == nm)
                or (isinstance(x, ast.Call) and isinstance(x.func, ast.Attribute) and isinstance(x.func.value, ast.Name) and x.func.value.id == nm and x.func.attr in ("append", "extend", "insert", "update", "pop", "popitem", "setdefault", "clear", "add", "remove", "discard"))
                or (isinstance(x, ast.Global) and nm in x.names)
                for x in ast.walk(tree))
            if written:
                out.append(nm)
    return out


# --------------------------------------------------------------------------
# which names a dispatch over a string key admits at a statement
# --------------------------------------------------------------------------


def _keyset(t: ast.AST, kv: str):
    """`t` as a set test on the name `kv`: (positive, S) meaning kv ∈ S / kv ∉ S; None when it is no such test.
    Collections given by name enter as the token '@name'."""
    def elts(c):
        if isinstance(c, (ast.Tuple, ast.List, ast.Set)) and all(isinstance(x, ast.Constant) for x in c.elts):
            return {x.value for x in c.elts}
        if isinstance(c, ast.Name):
            return {"@" + c.id}
        return None
    if isinstance(t, ast.UnaryOp) and isinstance(t.op, ast.Not):
        r = _keyset(t.operand, kv)
        return None if r is None else (not r[0], r[1])
    if isinstance(t, ast.Compare) and len(t.ops) == 1:
        l, op, r = t.left, t.ops[0], t.comparators[0]
        if isinstance(l, ast.Constant) and isinstance(r, ast.Name) and isinstance(op, (ast.Eq, ast.NotEq)):
            l, r = r, l
        if isinstance(l, ast.Name) and l.id == kv:
            if isinstance(op, (ast.Eq, ast.NotEq)) and isinstance(r, ast.Constant):
                return (isinstance(op, ast.Eq), {r.value})
            if isinstance(op, (ast.In, ast.NotIn)):
                e = elts(r)
                if e is not None:
                    return (isinstance(op, ast.In), e)
        return None
    if isinstance(t, ast.BoolOp):
        rs = [_keyset(v, kv) for v in t.values]
        if any(r is None for r in rs):
            return None
        acc = rs[0]
        for r in rs[1:]:
            acc = _ks_or(acc, r) if isinstance(t.op, ast.Or) else _ks_not(_ks_or(_ks_not(acc), _ks_not(r)))
        return acc
    return None


def _ks_not(a):
    return (not a[0], a[1])


def _ks_or(a, b):
    if a[0] and b[0]:
        return (True, a[1] | b[1])
    if not a[0] and not b[0]:
        return (False, a[1] & b[1])
    pos, neg = (a, b) if a[0] else (b, a)
    return (False, neg[1] - pos[1])


def key_tests(fn: ast.AST, node: ast.AST, kv: str):
    """The names of `kv` under which `node` executes, from the tests on its path: ((positive, S), opaque) — `kv ∈ S` or
    `kv ∉ S` — and the tests that mention `kv` in any other way than comparing it with fixed names."""
    acc = (False, set())
    opaque: List[str] = []
    todo = list(path_conditions(fn, node))
    while todo:
        t, pol = todo.pop(0)
        if not any(isinstance(x, ast.Name) and x.id == kv for x in ast.walk(t)):
            continue
        if isinstance(t, ast.UnaryOp) and isinstance(t.op, ast.Not):
            todo.insert(0, (t.operand, not pol))
            continue
        if isinstance(t, ast.BoolOp) and ((isinstance(t.op, ast.And) and pol) or (isinstance(t.op, ast.Or) and not pol)):
            todo = [(v, pol) for v in t.values] + todo
            continue
        r = _keyset(t, kv)
        if r is None:
            if isinstance(t, ast.Call) and isinstance(t.func, ast.Name) and t.func.id == "isinstance":
                continue
            opaque.append(("" if pol else "not ") + ast.unparse(t))
            continue
        if not pol:
            r = _ks_not(r)
        acc = _ks_not(_ks_or(_ks_not(acc), _ks_not(r)))
    return acc, opaque


_MEMO_DECOS = ("lru_cache", "cache", "cached_property", "memoize", "memoise", "memo")
_WRITE_METHODS = ("append", "extend", "insert", "update", "pop", "popitem", "setdefault", "clear", "add", "remove", "discard")


def cross_call_state(tree: ast.Module) -> List[str]:
    """Everything in a file that lets one call of its functions see an earlier one: module-level containers the code
    writes to, memoising decorators, mutable default arguments that are written, attributes hung on the functions
    themselves, `global` rebinding.  Returns one descriptor per construct."""
    out = [f"module-level container `{n}`" for n in module_level_state(tree)]
    fnames = {st.name for st in tree.body if isinstance(st, (ast.FunctionDef, ast.AsyncFunctionDef))}
    for fn in ast.walk(tree):
        if isinstance(fn, (ast.FunctionDef, ast.AsyncFunctionDef)):
            for d in fn.decorator_list:
                t = d.func if isinstance(d, ast.Call) else d
                last = t.attr if isinstance(t, ast.Attribute) else (t.id if isinstance(t, ast.Name) else "")
                if last in _MEMO_DECOS or "cache" in last.lower() or "memo" in last.lower():
                    out.append(f"memoising decorator `@{ast.unparse(d)}` on {fn.name}")
            a = fn.args
            pos = a.posonlyargs + a.args
            dflt = list(zip(pos[len(pos) - len(a.defaults):], a.defaults)) + [(k, v) for k, v in zip(a.kwonlyargs, a.kw_defaults) if v is not None]
            for arg, v in dflt:
                if isinstance(v, (ast.Dict, ast.List, ast.Set)) or (isinstance(v, ast.Call) and isinstance(v.func, ast.Name) and v.func.id in ("dict", "list", "set", "defaultdict", "OrderedDict")):
                    nm = arg.arg
                    if any((isinstance(x, ast.Subscript) and isinstance(x.ctx, (ast.Store, ast.Del)) and isinstance(x.value, ast.Name) and x.value.id == nm)
                           or (isinstance(x, ast.Call) and isinstance(x.func, ast.Attribute) and isinstance(x.func.value, ast.Name) and x.func.value.id == nm and x.func.attr in _WRITE_METHODS) for x in ast.walk(fn)):
                        out.append(f"mutable default argument `{nm}` of {fn.name} is written")
            for x in ast.walk(fn):
                if isinstance(x, ast.Global):
                    out.append(f"`global {', '.join(x.names)}` in {fn.name}")
    for x in ast.walk(tree):
        if isinstance(x, ast.Attribute) and isinstance(x.ctx, ast.Store) and isinstance(x.value, ast.Name) and x.value.id in fnames:
            out.append(f"attribute `{x.value.id}.{x.attr}` hung on a function")
    return sorted(set(out))


def input_writes(fn: ast.AST, extra_roots: Iterable[str] = ()) -> List[Tuple[ast.AST, str]]:
    """Writes into what a function was handed: attribute stores, setattr, deletions and mutating method calls whose receiver
    is a parameter (not self / cls), one of `extra_roots` (dotted, e.g. `self.sim`), or something read out of those
    (attribute, item, element of an iteration).  Results of calls are new objects and are not followed."""
    args = fn.args
    tainted = {a.arg for a in args.posonlyargs + args.args + args.kwonlyargs if a.arg not in ("self", "cls")}
    if args.vararg:
        tainted.add(args.vararg.arg)
    if args.kwarg:
        tainted.add(args.kwarg.arg)
    extra = set(extra_roots)

    def is_t(e: ast.AST) -> bool:
        if isinstance(e, ast.Name):
            return e.id in tainted
        if isinstance(e, ast.Attribute):
            return ast.unparse(e) in extra or is_t(e.value)
        if isinstance(e, (ast.Subscript, ast.Starred)):
            return is_t(e.value)
        if isinstance(e, ast.Call) and isinstance(e.func, ast.Attribute) and e.func.attr in ("values", "items", "get") and not e.keywords:
            return is_t(e.func.value)
        if isinstance(e, ast.Call) and isinstance(e.func, ast.Name) and e.func.id in ("iter", "reversed", "enumerate", "zip", "sorted", "list", "tuple") and e.args:
            return any(is_t(a) for a in e.args)
        if isinstance(e, ast.IfExp):
            return is_t(e.body) or is_t(e.orelse)
        if isinstance(e, ast.BoolOp):
            return any(is_t(v) for v in e.values)
        return False

    def bind(t: ast.AST):
        for x in ast.walk(t):
            if isinstance(x, ast.Name) and isinstance(x.ctx, ast.Store):
                tainted.add(x.id)

    for _ in range(4):
        n0 = len(tainted)
        for st in au.walk_no_nested(fn):
            if isinstance(st, ast.Assign) and is_t(st.value):
                for t in st.targets:
                    if isinstance(t, (ast.Name, ast.Tuple, ast.List)):
                        bind(t)
            elif isinstance(st, (ast.For, ast.comprehension)) and is_t(st.iter):
                bind(st.target)
            elif isinstance(st, ast.NamedExpr) and is_t(st.value):
                bind(st.target)
        if len(tainted) == n0:
            break
    out: List[Tuple[ast.AST, str]] = []
    for x in au.walk_no_nested(fn):
        if isinstance(x, (ast.Attribute, ast.Subscript)) and isinstance(x.ctx, (ast.Store, ast.Del)) and is_t(x.value):
            out.append((x, f"`{ast.unparse(x)}` is {'deleted' if isinstance(x.ctx, ast.Del) else 'assigned'}"))
        elif isinstance(x, ast.Call) and isinstance(x.func, ast.Name) and x.func.id in ("setattr", "delattr") and x.args and is_t(x.args[0]):
            out.append((x, f"`{ast.unparse(x)[:80]}`"))
        elif isinstance(x, ast.Call) and isinstance(x.func, ast.Attribute) and x.func.attr in _WRITE_METHODS + ("sort", "reverse", "__setitem__", "__delitem__", "__setattr__") and is_t(x.func.value):
            out.append((x, f"`{ast.unparse(x)[:80]}` changes it in place"))
    return out


def container_contents(fn: ast.AST, cname: str, depth: int = 3):
    """What a local container holds, by dataflow: [(key alternative or None, value alternative, conditions)].
    Sources: `c[k] = v`, `c.append(v)` / `c.add(v)` (value and key resolved through the reaching definitions of their
    locals, with the path conditions of the store), and `c = {k: v for k, v in src.items() if F}` / `[v for v in src if F]`
    — an identity map of another local container: its contents, each under F with the loop variables replaced by
    the content's own key / value."""
    import copy as _c

    out = []
    if depth <= 0:
        return out
    for st in au.walk_no_nested(fn):
        if isinstance(st, ast.Assign) and len(st.targets) == 1:
            t = st.targets[0]
            if isinstance(t, ast.Subscript) and isinstance(t.value, ast.Name) and t.value.id == cname:
                pcs = path_conditions(fn, st)
                keys = alternatives(fn, t.slice, pcs, at=st)
                k0 = keys[0][0] if len(keys) == 1 else t.slice
                for v, c in alternatives(fn, st.value, pcs, at=st):
                    out.append((k0, v, resolved_conditions(fn, c)))
            elif isinstance(t, ast.Name) and t.id == cname and isinstance(st.value, (ast.DictComp, ast.ListComp, ast.SetComp)) and len(st.value.generators) == 1:
                g = st.value.generators[0]
                src = g.iter
                kind = None
                if isinstance(src, ast.Call) and isinstance(src.func, ast.Attribute) and src.func.attr in ("items", "values") and isinstance(src.func.value, ast.Name) and not src.args:
                    kind, sname = src.func.attr, src.func.value.id
                elif isinstance(src, ast.Name):
                    kind, sname = "iter", src.id
                if kind is None:
                    continue
                # identity map?
                if isinstance(st.value, ast.DictComp) and kind == "items" and isinstance(g.target, ast.Tuple) and len(g.target.elts) == 2 and all(isinstance(e, ast.Name) for e in g.target.elts):
                    kv, vv = g.target.elts[0].id, g.target.elts[1].id
                    if not (isinstance(st.value.key, ast.Name) and st.value.key.id == kv and isinstance(st.value.value, ast.Name) and st.value.value.id == vv):
                        continue
                elif isinstance(st.value, (ast.ListComp, ast.SetComp)) and isinstance(g.target, ast.Name) and isinstance(st.value.elt, ast.Name) and st.value.elt.id == g.target.id and kind in ("values", "iter"):
                    kv, vv = None, g.target.id
                else:
                    continue
                for k, v, c in container_contents(fn, sname, depth - 1):
                    extra = []
                    for f in g.ifs:
                        f2 = _c.deepcopy(f)

                        class S(ast.NodeTransformer):
                            def visit_Name(self, node):
                                if node.id == vv:
                                    return _c.deepcopy(v)
                                if kv is not None and node.id == kv and k is not None:
                                    return _c.deepcopy(k)
                                return node

                        extra.append((ast.fix_missing_locations(S().visit(f2)), True))
                    out.append((k, v, list(c) + extra))
        elif isinstance(st, ast.Expr) and isinstance(st.value, ast.Call) and isinstance(st.value.func, ast.Attribute) and st.value.func.attr in ("append", "add") and isinstance(st.value.func.value, ast.Name) and st.value.func.value.id == cname and len(st.value.args) == 1:
            pcs = path_conditions(fn, st)
            for v, c in alternatives(fn, st.value.args[0], pcs, at=st):
                out.append((None, v, resolved_conditions(fn, c)))
    return out



def project_call(repo, fi, e: ast.AST) -> Optional[ast.AST]:
    """`f(args)[k]` / `f(args).name` where f is a function of the repo whose (single) return builds the record in
    place — a tuple display, or a constructor call with one keyword per field (NamedTuple / dataclass) — is the k-th
    element / the field's expression, with f's parameters replaced by the arguments.  None when that is not the shape."""
    import copy as _c

    if isinstance(e, ast.Subscript) and isinstance(e.value, ast.Call):
        call, sel = e.value, e.slice
    elif isinstance(e, ast.Attribute) and isinstance(e.value, ast.Call):
        call, sel = e.value, e.attr
    else:
        return None
    callee = repo.resolve_call(call, fi)
    if callee is None or not hasattr(callee, "node"):
        return None
    rets = returns_of(callee.node)
    if len(rets) != 1 or rets[0].value is None:
        return None
    rv = prov(callee.node, rets[0].value)
    picked = None
    if isinstance(sel, str):
        if isinstance(rv, ast.Call) and rv.keywords and not rv.args:
            for pos, k in enumerate(rv.keywords):
                if k.arg == sel:
                    picked = k.value
    else:
        if isinstance(sel, ast.Constant) and isinstance(sel.value, int):
            if isinstance(rv, ast.Tuple) and 0 <= sel.value < len(rv.elts):
                picked = rv.elts[sel.value]
            elif isinstance(rv, ast.Call) and rv.keywords and not rv.args and 0 <= sel.value < len(rv.keywords):
                picked = rv.keywords[sel.value].value  # positional view of a NamedTuple built by keywords, in field order
    if picked is None:
        return None
    params = [a.arg for a in callee.node.args.args]
    if getattr(callee, "cls", None) is not None and params and params[0] in ("self", "cls"):
        params = params[1:]
    if len(call.args) > len(params) or any(k.arg is None for k in call.keywords):
        return None
    bind = dict(zip(params, call.args))
    for k in call.keywords:
        bind[k.arg] = k.value

    class S(ast.NodeTransformer):
        def visit_Name(self, node):
            return _c.deepcopy(bind[node.id]) if node.id in bind and isinstance(node.ctx, ast.Load) else node

    return ast.fix_missing_locations(S().visit(_c.deepcopy(picked)))



def ctext(src: str) -> str:
    """The canonical spelling of an expression given as text (what `ast.unparse` of the canonical form prints):
    for comparing a test of the analysed code with an expected test."""
    import copy as _c
    from .. import pat as _pat, canon as _canon

    t = _c.deepcopy(_pat.P(src))
    _canon.sort_identity_tests(t)
    return ast.unparse(t)
