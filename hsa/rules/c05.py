"""C05 — names invented during elaboration never capture the designer's names.

F5 FRESHNAME: every insertion of a named object into a Module from the
elaboration passes uses a name that is fresh for that module (the result of
`flatname(.., avoid=<that module>.namespace)`, or guarded by a membership test
that raises); `flatname` only returns names it has checked; passes do not write
the module's containers directly.
"""

from __future__ import annotations

import ast
from typing import Dict, List, Optional, Set, Tuple

from ..core import AnalysisError, FuncInfo, Repo, dotted
from ..cfg import CFG, Client, run as run_df
from .. import au, pat
from .common import *  # noqa
from .common import key_of, noreturn_set
from .shared import path_conditions, enclosing, enclosing_all
from .c08 import may_raise

KIND_DICTS = ("namespace", "ports", "signals", "instances", "instarrays", "instbundles", "bundles")


def is_fresh(e: ast.AST, modname: str, defs: Dict[str, ast.AST], fi: Optional[FuncInfo] = None, use: Optional[ast.AST] = None) -> Tuple[bool, str]:
    """Is expression `e` the result of flatname(.., avoid=<modname>.namespace)?
    A local name is followed to its definition(s): the single definition, or —
    with `fi`/`use` given — every definition that reaches the use on the CFG."""
    x = e
    hops = 0
    while isinstance(x, ast.Name) and x.id in defs and hops < 4:
        x = defs[x.id]
        hops += 1
    if isinstance(x, ast.Name) and fi is not None and use is not None:
        from ..cfg import CFG, reaching_defs, def_value
        from .shared import stmt_index_path
        cfg = CFG(fi.node, may_raise)
        rd = reaching_defs(cfg, x.id)
        st = stmt_index_path(fi.node, use)
        nodes = cfg.nodes_for(st)
        reach = set()
        for n in nodes:
            reach |= rd[n.id]
        if reach and -1 not in reach:
            results = []
            for d in sorted(reach):
                v = def_value(cfg.nodes[d], x.id)
                if v is None:
                    return False, f"`{x.id}` may come from `{ast.unparse(cfg.nodes[d].ast).splitlines()[0][:70]}` (line {cfg.nodes[d].lineno}), which is not a flatname() result"
                ok, det = is_fresh(v, modname, {}, None, None)
                if not ok:
                    return False, f"`{x.id}` may come from line {cfg.nodes[d].lineno}: {det}"
                results.append(det)
            return True, f"`{x.id}`: every reaching definition is fresh ({'; '.join(results)})"
    m = pat.match("$S.flatname(*$_)", x)
    if m is None:
        return False, f"`{ast.unparse(e)}` (= `{ast.unparse(x)}`) is not produced by flatname()"
    kws = {k.arg: k.value for k in x.keywords}
    av = kws.get("avoid")
    if av is None:
        return False, f"`{ast.unparse(x)}` is called without `avoid=`: nothing is avoided"
    if ast.unparse(av) != f"{modname}.namespace":
        return False, f"`{ast.unparse(x)}` avoids `{ast.unparse(av)}`, not `{modname}.namespace` of the module the object is inserted into"
    return True, f"`{ast.unparse(e)}` = flatname(.., avoid={modname}.namespace)"


def name_defs_for(fi: FuncInfo, obj: str, before: ast.AST) -> List[Tuple[ast.AST, ast.AST]]:
    """Assignments `obj.name = E` in fi (statement, E)."""
    out = []
    for st in au.stmts(fi.node):
        if isinstance(st, ast.Assign) and len(st.targets) == 1 and ast.unparse(st.targets[0]) == f"{obj}.name":
            out.append((st, st.value))
    return out


def sinks(repo: Repo, prefix: str):
    """(function, call node, module expr, [(label, name expr or None)])"""
    for fi in repo.funcs_in(prefix):
        if ".<locals>." in fi.qual:
            continue
        for c in au.calls_in(fi.node, nested=True):
            f = c.func
            if not (isinstance(f, ast.Attribute) and f.attr == "add"):
                continue
            recv = ast.unparse(f.value)
            if recv not in ("module", "m", "new_module", "wrapper"):
                continue
            yield fi, c, recv


def check(repo: Repo, R) -> None:
    rule = "C05.1-inserted-names-are-fresh"
    why = "the invented object silently replaces an existing attribute of the same name in the module namespace: two nets become one, or an instance disappears"
    n_sinks = 0
    for fi, c, mod in sinks(repo, "hdl21/elab/"):
        n_sinks += 1
        defs = au.local_defs(fi.node)
        kws = {k.arg: k.value for k in c.keywords}
        cands: List[Tuple[str, ast.AST]] = []
        if "name" in kws:
            cands.append(("name=", kws["name"]))
        else:
            val = c.args[0] if c.args else kws.get("val")
            if val is None:
                raise AnalysisError(f"idiom-unknown: `{ast.unparse(c)}` in {fi.site}")
            v = val
            if isinstance(v, ast.Name):
                nds = name_defs_for(fi, v.id, c)
                for st, e in nds:
                    conds = path_conditions(fi.node, st)
                    lab = " and ".join(("" if p else "not ") + ast.unparse(t) for t, p in conds) or "always"
                    cands.append((f"{v.id}.name [{lab}]", e))
                if not nds and v.id in defs:
                    v = defs[v.id]
            if not cands:
                m = pat.match("$K(*$_)", v)
                if m is not None:
                    k2 = {k.arg: k.value for k in v.keywords}
                    if "name" in k2:
                        cands.append(("constructor name=", k2["name"]))
            if not cands:
                R.bad(rule, key_of(fi, ast.unparse(c)), fi.at(c), f"`{ast.unparse(c)}`: cannot see where the inserted object's name comes from; it is not assigned from flatname() in this function", why)
                continue
        for lab, e in cands:
            ok, detail = is_fresh(e, mod, defs, fi, c)
            R.check(ok, rule, key_of(fi, f"{ast.unparse(c)[:60]}::{lab}"), fi.at(c), f"`{ast.unparse(c)[:80]}` — {lab}: {detail}", why=why)
    # `flatname(avoid=module.namespace)` is only as good as the namespace: whatever a module still holds under a name is
    # listed there — a displaced holder leaves every per-kind container (C18.1 clause)
    from . import c18 as _c18, shared as _sh5
    if "c05" not in _sh5.ATTACHING:
      _sh5.ATTACHING.append("c18")
      try:
        R.run(_c18.check, repo, _sh5.Retag(R, lambda r, k: "C05.4-namespace-lists-every-holder" if r.startswith("C18.1") and k.startswith("hdl21/module.py") else None,
                                           "an instance bundle displaced by a signal of its name stays in `instbundles`; elaborating it pops the designer's signal out of the namespace, and the next invented name equal to it is handed out unsuffixed: two nets become one"))
      finally:
        _sh5.ATTACHING.pop()
    # the child resolved a clash of a flattened member's name its own way (`b_x_`): the parent connects by the name the child
    # ended up with, never by deriving it again
    from . import c01 as _c01
    R.run(_c01.bundle_conn_path, repo, _sh5.Retag(R, lambda r, k: "C05.1-inserted-names-are-fresh" if k.endswith("replace_bundle_conn::connect") else None,
                                                 "the parent re-derives `b_x` for a member the child had to name `b_x_`: the designer's own connection to the child's port `b_x` is overwritten and the member's port left open"), "C01.4-bundle-reconnect-by-path")
    R.floor(rule, 5)  # 6 on the reference tree; two sites may legitimately share one flatname call

    # ---- flatname only returns checked names
    rule2 = "C05.2-flatname-checks-before-return"
    ff = repo.func(F_BASE, "ElabPass.flatname")
    cfg = CFG(ff.node, may_raise)

    class C(Client):
        pass

    IN = run_df(cfg, C())
    rets = [n for n in cfg.nodes if n.kind == "stmt" and isinstance(n.ast, ast.Return)]
    if not rets:
        raise AnalysisError(f"idiom-unknown: no return in {ff.site}")
    ok = True
    for rn in rets:
        nm = ast.unparse(rn.ast.value) if rn.ast.value is not None else None
        for w in IN[rn.id]:
            if not (("cond", f"{nm} not in avoid", True) in w or ("cond", f"{nm} in avoid", False) in w):
                ok = False
    R.check(ok and bool(IN[rets[0].id]), rule2, key_of(ff), ff.site,
            "every path to `return name` passes the successful test `name not in avoid` with no later change of name" if ok else
            "a path reaches `return name` without having established `name not in avoid` for the returned value",
            why="flatname returns a name that is already taken")
    # the collision step appends to the name (it cannot loop forever on the same name) and the length guard fails
    noret = noreturn_set(repo)
    rnames = {ast.unparse(rn.ast.value) for rn in rets if rn.ast.value is not None}
    rv = rnames.pop() if len(rnames) == 1 else "name"
    loops = [n for n in au.walk_no_nested(ff.node) if isinstance(n, ast.While)]
    grows = any(isinstance(n, ast.AugAssign) and isinstance(n.op, ast.Add) and ast.unparse(n.target) == rv and isinstance(n.value, ast.Constant) and isinstance(n.value.value, str) and n.value.value for lp in loops for n in ast.walk(lp))
    # the length is checked for every candidate: before the loop (or at its head) and after each growth step
    lims = [n for n in au.walk_no_nested(ff.node) if isinstance(n, ast.If) and f"len({rv})" in ast.unparse(n.test) and (au.raises(n.body, noret) != au.raises(n.orelse, noret))]
    in_loop = any(any(x is n for x in ast.walk(lp)) for lp in loops for n in lims)
    lim = bool(lims) and in_loop
    R.check(grows and lim, rule2, key_of(ff, "termination"), ff.site, f"on a collision the candidate grows ({grows}); over-long names fail ({lim})", why="flatname loops forever or returns an over-long name")
    join = bool(pat.find("'_'.join(segments)", ff.node))
    R.check(join, rule2, key_of(ff, "join"), ff.site, f"the base name joins the segments with '_': {join}", why="flattened names differ from the documented inst_port / bundle_member form")

    # ---- passes do not write module containers directly
    rule3 = "C05.3-no-direct-container-writes"
    n_pop = 0
    for fi in repo.funcs_in("hdl21/elab/"):
        for n in ast.walk(fi.node):
            tgt = None
            what = None
            if isinstance(n, ast.Subscript) and isinstance(n.ctx, (ast.Store, ast.Del)) and isinstance(n.value, ast.Attribute) and n.value.attr in KIND_DICTS and ast.unparse(n.value.value) in ("module", "m"):
                tgt, what = n, "subscript store/del"
            if isinstance(n, ast.Call) and isinstance(n.func, ast.Attribute) and isinstance(n.func.value, ast.Attribute) and n.func.value.attr in KIND_DICTS and ast.unparse(n.func.value.value) in ("module", "m") and n.func.attr in ("pop", "popitem", "update", "clear", "setdefault"):
                tgt, what = n, f".{n.func.attr}()"
            if tgt is None:
                continue
            if what in (".popitem()", ".pop()"):
                # accepted idiom: `name, x = module.<kind>.popitem()` paired with `module.namespace.pop(name)` in the same loop
                loop = enclosing(fi.node, tgt, (ast.While, ast.For))
                if loop is not None:
                    pops = pat.find("$M.$_.popitem()", loop)
                    popi = [c for c in au.calls_in(loop) if isinstance(c.func, ast.Attribute) and c.func.attr == "popitem"]
                    nsp = [c for c in au.calls_in(loop) if ast.unparse(c.func) in ("module.namespace.pop", "m.namespace.pop")]
                    if len(popi) == 1 and len(nsp) == 1:
                        # the popped name is what is removed from the namespace
                        asg = au.parents(fi.node).get(popi[0])
                        nm = None
                        if isinstance(asg, ast.Assign) and isinstance(asg.targets[0], ast.Tuple):
                            nm = ast.unparse(asg.targets[0].elts[0])
                        if nm is not None and ast.unparse(nsp[0].args[0]) == nm:
                            n_pop += 1
                            R.ok(rule3, key_of(fi, ast.unparse(tgt)), fi.at(tgt), f"`{ast.unparse(tgt)}` is the paired removal (per-kind dict and namespace) of the object being flattened")
                            continue
            R.bad(rule3, key_of(fi, ast.unparse(tgt)[:60]), fi.at(tgt), f"pass writes a module container directly: `{ast.unparse(tgt)}` ({what})",
                  "an object is inserted or removed behind Module.add's back: per-kind views and namespace disagree, or a name is overwritten")
    if n_sinks < 5 and not any(not o.ok for o in R.obs):
        raise AnalysisError(f"anchor-vanished: only {n_sinks} Module.add sinks found in hdl21/elab (expected >= 5)")
    if n_pop < 3:
        raise AnalysisError(f"anchor-vanished: paired popitem/namespace.pop idiom found {n_pop} times in hdl21/elab (expected 6 = 3 passes x 2 calls)")
