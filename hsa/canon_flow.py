"""Canonical form, flow part (C10): flag variables, constant tests, dead self-assignments, rebinding chains.

All steps preserve behaviour; they only remove ways of writing the same control flow:

  F1  `x = x` is dropped.
  F2  a statement sequence that follows an if/elif chain and *tests a flag* the chain's branches set to
      constants is moved into the branches (tail duplication), the constants are propagated into the copies
      and tests that became constant are pruned:
            if c: f = True                      if c:   A; R[f := True]
            else: f = False; A          ==>     else:   R[f := False]
            R
  F3  constants are propagated along straight-line code and into branches up to the next store of the name
      — only for names all of whose bindings in the function are `name = <constant>`.
  F4  `if True: A else: B` -> A;  `x if False else y` -> y;  `not True` -> False;  `True and e` -> e ...
  F5  a flag no longer read is no longer written.
  F6  `n = e; S(n)` with S using n once, first, and n dead afterwards (a rebinding chain like
      `other = conv(other); return op(other)`) -> `S(e)`.

Liveness is conservative (uses anywhere later in the block, in an enclosing loop, or after an enclosing
statement count as live).
"""

from __future__ import annotations

import ast
import copy
from typing import Dict, List, Optional, Sequence, Set, Tuple

_NON_NONE_BUILTINS = {"int", "float", "str", "bool", "bytes", "list", "dict", "set", "tuple", "frozenset", "len", "repr", "sorted", "Decimal"}
MAX_REST = 12  # statements (deep) of a continuation that may be duplicated
MAX_LEAVES = 5  # branches a small continuation is copied into (F9)
MAX_FLAG_LEAVES = 17  # branches a flag-dependent continuation is copied into (F2): a dispatch table has up to 16 rows + default


def _blocks_with_owner(fn: ast.AST) -> List[Tuple[List[ast.stmt], ast.AST, str]]:
    out = []
    stack = [fn]
    while stack:
        n = stack.pop()
        for fld in ("body", "orelse", "finalbody"):
            b = getattr(n, fld, None)
            if isinstance(b, list) and b and isinstance(b[0], ast.stmt):
                out.append((b, n, fld))
                for s in b:
                    if not isinstance(s, (ast.FunctionDef, ast.AsyncFunctionDef, ast.ClassDef)):
                        stack.append(s)
        if isinstance(n, ast.Try):
            for h in n.handlers:
                stack.append(h)
    return out


def _uses(node, name: str) -> int:
    if isinstance(node, list):
        return sum(_uses(s, name) for s in node)
    return sum(1 for n in ast.walk(node) if isinstance(n, ast.Name) and n.id == name and isinstance(n.ctx, ast.Load))


def _store_nodes(node, name: str) -> List[ast.AST]:
    nodes = node if isinstance(node, list) else [node]
    out = []
    for r in nodes:
        for n in ast.walk(r):
            if isinstance(n, ast.Name) and n.id == name and isinstance(n.ctx, (ast.Store, ast.Del)):
                out.append(n)
            elif isinstance(n, ast.arg) and n.arg == name:
                out.append(n)
            elif isinstance(n, ast.ExceptHandler) and n.name == name:
                out.append(n)
            elif isinstance(n, (ast.Global, ast.Nonlocal)) and name in n.names:
                out.append(n)
            elif isinstance(n, (ast.FunctionDef, ast.AsyncFunctionDef, ast.ClassDef)) and n.name == name:
                out.append(n)
            elif isinstance(n, (ast.Import, ast.ImportFrom)) and any((a.asname or a.name).split(".")[0] == name for a in n.names):
                out.append(n)
    return out


_BOUND_IN: Dict[int, Set[str]] = {}
_ONCE: Dict[str, Set[str]] = {}


def _flag_value(e: ast.expr, bound: Set[str]) -> bool:
    """A value that is the same whenever it is read: a constant, a lambda, or a (dotted) name the function never binds
    — a builtin, a module-level function or class."""
    if isinstance(e, (ast.Constant, ast.Lambda)):
        return True
    # partial(F, a, b) over stable names: the same callable wherever it is read
    if isinstance(e, ast.Call) and ((isinstance(e.func, ast.Name) and e.func.id == "partial") or (isinstance(e.func, ast.Attribute) and e.func.attr == "partial")) and e.args and not e.keywords \
            and all(isinstance(a, (ast.Name, ast.Attribute, ast.Constant)) for a in e.args):
        return True
    x = e
    while isinstance(x, ast.Attribute):
        x = x.value
    if isinstance(x, ast.Name) and x.id not in bound:
        return True
    # a bound method of a local that is bound once (`lookup = conn.get`): the same callable wherever the flag is read
    if isinstance(x, ast.Name) and isinstance(e, ast.Attribute) and x.id in _ONCE.get("names", set()):
        return True
    # the name of a local function that is defined once
    if isinstance(e, ast.Name) and e.id in _ONCE.get("localdefs", set()):
        return True
    return False


def _const_assign(st: ast.stmt, bound: Optional[Set[str]] = None) -> Optional[str]:
    if isinstance(st, ast.Assign) and len(st.targets) == 1 and isinstance(st.targets[0], ast.Name):
        if isinstance(st.value, ast.Constant) or (bound is not None and _flag_value(st.value, bound)):
            return st.targets[0].id
    return None


def _bound_names(fn: ast.AST) -> Set[str]:
    out = set()
    for n in ast.walk(fn):
        if isinstance(n, ast.Name) and isinstance(n.ctx, (ast.Store, ast.Del)):
            out.add(n.id)
        elif isinstance(n, ast.arg):
            out.add(n.arg)
        elif isinstance(n, (ast.FunctionDef, ast.AsyncFunctionDef, ast.ClassDef)) and n is not fn:
            out.add(n.name)
        elif isinstance(n, (ast.Import, ast.ImportFrom)):
            for a in n.names:
                out.add((a.asname or a.name).split(".")[0])
        elif isinstance(n, ast.ExceptHandler) and n.name:
            out.add(n.name)
    return out


def _ends(block: Sequence[ast.stmt], noreturn: Set[str]) -> bool:
    from .canon import _terminates

    return _terminates(block, noreturn)


def _count_stmts(block: Sequence[ast.stmt]) -> int:
    return sum(1 for s in block for n in ast.walk(s) if isinstance(n, ast.stmt))


def _flag_names(fn: ast.AST) -> Set[str]:
    """Names all of whose bindings in fn are plain `name = <constant>` statements (parameters excluded)."""
    cands: Dict[str, int] = {}
    bound = _bound_names(fn)
    for n in ast.walk(fn):
        if isinstance(n, ast.Assign):
            nm = _const_assign(n, bound)
            if nm:
                cands[nm] = cands.get(nm, 0) + 1
    out = set()
    for nm, k in cands.items():
        if len(_store_nodes(fn, nm)) == k:
            out.add(nm)
    return out


def _closure_uses(node, name: str) -> bool:
    """Is `name` read by a function / lambda nested in node as a *free* variable (one the nested scope does not bind itself)?"""
    nodes = node if isinstance(node, list) else [node]
    for r in nodes:
        for n in ast.walk(r):
            if isinstance(n, (ast.Lambda, ast.FunctionDef, ast.AsyncFunctionDef)) and n is not r and _uses(n, name):
                own = {a.arg for a in ast.walk(n.args) if isinstance(a, ast.arg)}
                if isinstance(n, (ast.FunctionDef, ast.AsyncFunctionDef)):
                    nonloc = {x for g in ast.walk(n) if isinstance(g, (ast.Nonlocal, ast.Global)) for x in g.names}
                    own |= {x.id for x in ast.walk(n) if isinstance(x, ast.Name) and isinstance(x.ctx, ast.Store)} - nonloc
                if name not in own:
                    return True
    return False


# ---------------------------------------------------------------- F1

def drop_self_assignments(fn: ast.AST) -> int:
    n = 0
    # an import statement repeated in the same block (helpers that were merged each brought their own)
    for blk, _o, _f in _blocks_with_owner(fn):
        seen = set()
        for s in list(blk):
            if isinstance(s, (ast.Import, ast.ImportFrom)):
                t = ast.unparse(s)
                if t in seen:
                    blk.remove(s)
                    n += 1
                seen.add(t)
    for blk, _o, _f in _blocks_with_owner(fn):
        for s in list(blk):
            if isinstance(s, ast.Assign) and len(s.targets) == 1 and isinstance(s.targets[0], ast.Name) and isinstance(s.value, ast.Name) and s.value.id == s.targets[0].id:
                blk.remove(s)
                n += 1
        if not blk:
            blk.append(ast.Pass())
    return n


# ---------------------------------------------------------------- F2

def _chain_leaves(st: ast.If) -> List[Tuple[ast.If, str]]:
    out = []
    node = st
    while True:
        out.append((node, "body"))
        if len(node.orelse) == 1 and isinstance(node.orelse[0], ast.If):
            node = node.orelse[0]
            continue
        out.append((node, "orelse"))
        break
    return out


def _tests_name(rest: Sequence[ast.stmt], nm: str) -> bool:
    """The continuation decides on the flag (tests it), calls it, or looks something up by it (getattr / subscript)."""
    for s in rest:
        for n in ast.walk(s):
            if isinstance(n, (ast.If, ast.IfExp, ast.While)) and _uses(n.test, nm):
                return True
            if isinstance(n, ast.Call) and isinstance(n.func, ast.Name) and n.func.id == nm:
                return True
            if isinstance(n, ast.Call) and isinstance(n.func, ast.Name) and n.func.id == "getattr" and len(n.args) >= 2 and isinstance(n.args[1], ast.Name) and n.args[1].id == nm:
                return True
    return False


def tail_duplicate_flags(fn: ast.AST, noreturn: Set[str]) -> int:
    changed = 0
    for _round in range(4):
        did = False
        flags = _flag_names(fn)
        if not flags:
            break
        for blk, _o, _f in _blocks_with_owner(fn):
            for i, st in enumerate(blk):
                if not isinstance(st, ast.If) or i + 1 >= len(blk):
                    continue
                rest = blk[i + 1 :]
                # a continuation that is nothing but the decision on one flag costs no duplication to speak of: each
                # branch keeps the one arm its constant selects
                t0 = rest[0].test if len(rest) == 1 and isinstance(rest[0], ast.If) else None
                if isinstance(t0, ast.UnaryOp) and isinstance(t0.op, ast.Not):
                    t0 = t0.operand
                sole_decision = isinstance(t0, ast.Name) and len([1 for o, f in _chain_leaves(st) if not _ends(getattr(o, f), noreturn)]) <= 3
                if (_count_stmts(rest) > MAX_REST and not sole_decision) or any(isinstance(n, (ast.FunctionDef, ast.AsyncFunctionDef, ast.ClassDef)) for s in rest for n in ast.walk(s)):
                    continue
                leaves = _chain_leaves(st)
                open_leaves = [(o, f) for o, f in leaves if not _ends(getattr(o, f), noreturn)]
                if not open_leaves or len(open_leaves) > MAX_FLAG_LEAVES:
                    continue
                hit = None
                for nm in sorted(flags):
                    if not _tests_name(rest, nm):
                        continue
                    bound = _bound_names(fn)
                    setters = [1 for o, f in open_leaves if any(_const_assign(s, bound) == nm for s in getattr(o, f))]
                    if not setters:
                        continue
                    # the flag is read only in the continuation
                    if _uses(fn, nm) != _uses(rest, nm):
                        continue
                    hit = nm
                    break
                if hit is None:
                    continue
                for o, f in open_leaves:
                    b = getattr(o, f)
                    b[:] = [s for s in b if not isinstance(s, ast.Pass)] + [copy.deepcopy(s) for s in rest]
                del blk[i + 1 :]
                changed += 1
                did = True
                break
            if did:
                break
        if not did:
            break
    return changed


def _stable_key(e: ast.expr) -> bool:
    """A table or key expression that can be evaluated twice: names, attribute chains, constants, `id(<such>)`."""
    if isinstance(e, (ast.Name, ast.Constant)):
        return True
    if isinstance(e, ast.Attribute):
        return _stable_key(e.value)
    if isinstance(e, ast.Call) and isinstance(e.func, ast.Name) and e.func.id in ("id", "str", "len") and len(e.args) == 1 and not e.keywords:
        return _stable_key(e.args[0])
    # `o.__getattribute__("name")`: plain attribute access, spelled out to get past a custom __getattr__
    if isinstance(e, ast.Call) and isinstance(e.func, ast.Attribute) and e.func.attr == "__getattribute__" and len(e.args) == 1 and isinstance(e.args[0], ast.Constant) and not e.keywords:
        return _stable_key(e.func.value)
    if isinstance(e, ast.Tuple):
        return all(_stable_key(x) for x in e.elts)
    # a table written out in place (a constant one that was inlined)
    if isinstance(e, ast.Dict) and e.keys and all(isinstance(k, ast.Constant) for k in e.keys) and all(_stable_key(v) for v in e.values):
        return True
    return False


def membership_spellings(fn: ast.AST, noreturn: Set[str]) -> int:
    """One spelling for "is the key in the table, and if so what does it hold" (tables that hold no None):
        x = T.get(K); if x is None: A else: B          ->  if K in T: x = T[K]; B  else: A
        try: x = T[K]  except KeyError: A  [else: B]   ->  if K in T: x = T[K]; B  else: A      (A ends the block, or B is the else)
    """
    changed = 0
    for _round in range(6):
        did = False
        for blk, _o, _f in _blocks_with_owner(fn):
            for i, st in enumerate(blk):
                # --- get-form
                if isinstance(st, ast.Assign) and len(st.targets) == 1 and isinstance(st.targets[0], ast.Name) and i + 1 < len(blk) and isinstance(blk[i + 1], ast.If):
                    v, x, iff = st.value, st.targets[0].id, blk[i + 1]
                    sentinel = v.args[1] if isinstance(v, ast.Call) and len(v.args) == 2 and isinstance(v.args[1], (ast.Name, ast.Attribute)) else None
                    if isinstance(v, ast.Call) and isinstance(v.func, ast.Attribute) and v.func.attr == "get" and not v.keywords and (len(v.args) == 1 or (len(v.args) == 2 and isinstance(v.args[1], ast.Constant) and v.args[1].value is None) or sentinel is not None) \
                            and _stable_key(v.func.value) and _stable_key(v.args[0]):
                        t = iff.test
                        pol = None
                        if isinstance(t, ast.Compare) and len(t.ops) == 1 and isinstance(t.left, ast.Name) and t.left.id == x and isinstance(t.comparators[0], ast.Constant) and t.comparators[0].value is None and sentinel is None:
                            pol = True if isinstance(t.ops[0], ast.Is) else (False if isinstance(t.ops[0], ast.IsNot) else None)
                        # a private sentinel as the default (`T.get(K, _MISSING)` ... `x is _MISSING`): the same decision, whatever T holds
                        if sentinel is not None and isinstance(t, ast.Compare) and len(t.ops) == 1 and isinstance(t.ops[0], (ast.Is, ast.IsNot)):
                            sides = {ast.unparse(t.left), ast.unparse(t.comparators[0])}
                            if sides == {x, ast.unparse(sentinel)}:
                                pol = isinstance(t.ops[0], ast.Is)
                        if pol is not None and len(_store_nodes(fn, x)) == 1:
                            none_arm, val_arm = (iff.body, iff.orelse) if pol else (iff.orelse, iff.body)
                            rest_uses = sum(_uses(s_, x) for s_ in blk[i + 2 :])
                            if not any(_uses(s_, x) for s_ in none_arm) and (rest_uses == 0 or _ends(none_arm, noreturn)):
                                test = ast.Compare(copy.deepcopy(v.args[0]), [ast.In()], [copy.deepcopy(v.func.value)])
                                bind = ast.Assign([ast.Name(x, ast.Store())], ast.Subscript(copy.deepcopy(v.func.value), copy.deepcopy(v.args[0]), ast.Load()))
                                new_if = ast.If(test, [bind] + [s_ for s_ in val_arm if not isinstance(s_, ast.Pass)], list(none_arm))
                                if rest_uses and _ends(none_arm, noreturn):
                                    # the value is read after the decision (the other arm has left): the continuation belongs to the hit
                                    new_if.body += blk[i + 2 :]
                                    del blk[i + 2 :]
                                blk[i : i + 2] = [ast.fix_missing_locations(ast.copy_location(new_if, st))]
                                changed += 1
                                did = True
                                break
                # --- try-form
                if isinstance(st, ast.Try) and len(st.handlers) == 1 and not st.finalbody and len(st.body) == 1 and isinstance(st.body[0], ast.Assign) and len(st.body[0].targets) == 1 and isinstance(st.body[0].targets[0], ast.Name):
                    h = st.handlers[0]
                    a0 = st.body[0]
                    if h.type is not None and ast.unparse(h.type) == "KeyError" and h.name is None and isinstance(a0.value, ast.Subscript) and _stable_key(a0.value.value) and _stable_key(a0.value.slice):
                        miss = [s_ for s_ in h.body if not isinstance(s_, ast.Pass)]
                        if st.orelse or _ends(miss, noreturn) or not any(_uses(s_, a0.targets[0].id) for s_ in blk[i + 1 :]):
                            test = ast.Compare(copy.deepcopy(a0.value.slice), [ast.In()], [copy.deepcopy(a0.value.value)])
                            hit = [a0] + list(st.orelse)
                            if not st.orelse and _ends(miss, noreturn):
                                hit += blk[i + 1 :]
                                del blk[i + 1 :]
                            blk[i] = ast.fix_missing_locations(ast.copy_location(ast.If(test, hit, miss), st))
                            changed += 1
                            did = True
                            break
            if did:
                break
        if not did:
            break
    return changed


def sink_sole_decision(fn: ast.AST, noreturn: Set[str]) -> int:
    """`if c: t = E1 else: t = E2` followed by `if t: A else: B`, t read nowhere else: the decision moves into the branches
    — a constant picks its arm, an expression becomes the test.  At most one branch may carry a non-constant (one extra copy
    of the arms); this is what remains of a boolean helper (`if helper(x):`) once its body has been inlined."""
    changed = 0
    for _round in range(4):
        did = False
        for blk, _o, _f in _blocks_with_owner(fn):
            for i, st in enumerate(blk):
                if not isinstance(st, ast.If) or i + 1 >= len(blk) or not isinstance(blk[i + 1], ast.If):
                    continue
                dec = blk[i + 1]
                t0, neg = dec.test, False
                if isinstance(t0, ast.UnaryOp) and isinstance(t0.op, ast.Not):
                    t0, neg = t0.operand, True
                if not isinstance(t0, ast.Name):
                    continue
                nm = t0.id
                if _uses(fn, nm) != 1:
                    continue
                leaves = [(o, f) for o, f in _chain_leaves(st)]
                open_leaves = [(o, f) for o, f in leaves if not _ends(getattr(o, f), noreturn)]
                if not open_leaves or len(open_leaves) > 3:
                    continue
                vals = []
                for o, f in open_leaves:
                    b = [x for x in getattr(o, f) if not isinstance(x, ast.Pass)]
                    last = b[-1] if b else None
                    if not (isinstance(last, ast.Assign) and len(last.targets) == 1 and isinstance(last.targets[0], ast.Name) and last.targets[0].id == nm):
                        vals = None
                        break
                    if any(isinstance(n, ast.Name) and n.id == nm and isinstance(n.ctx, ast.Store) for x in b[:-1] for n in ast.walk(x)):
                        vals = None
                        break
                    vals.append(last.value)
                if vals is None or len(_store_nodes(fn, nm)) != len(open_leaves):
                    continue
                if sum(1 for v in vals if _truth(v) is None) > 1:
                    continue
                A, B = (dec.orelse, dec.body) if neg else (dec.body, dec.orelse)
                for (o, f), v in zip(open_leaves, vals):
                    b = [x for x in getattr(o, f) if not isinstance(x, ast.Pass)][:-1]
                    t = _truth(v)
                    if t is True:
                        tail = [copy.deepcopy(x) for x in A]
                    elif t is False:
                        tail = [copy.deepcopy(x) for x in B]
                    else:
                        tail = [ast.copy_location(ast.If(v, [copy.deepcopy(x) for x in A] or [ast.Pass()], [copy.deepcopy(x) for x in B]), dec)]
                    setattr(o, f, (b + tail) or [ast.copy_location(ast.Pass(), dec)])
                del blk[i + 1]
                ast.fix_missing_locations(st)
                changed += 1
                did = True
                break
            if did:
                break
        if not did:
            break
    return changed


# ---------------------------------------------------------------- F3

class _SubstConst(ast.NodeTransformer):
    def __init__(self, name: str, value: ast.expr):
        self.name, self.value, self.n = name, value, 0

    def visit_Name(self, node: ast.Name):
        if node.id == self.name and isinstance(node.ctx, ast.Load):
            self.n += 1
            return ast.copy_location(copy.deepcopy(self.value), node)
        return node


def _subst_until_store(stmts: List[ast.stmt], nm: str, const: ast.Constant, counter: List[int]) -> bool:
    """Substitute the constant for loads of nm along stmts until nm is stored again; True when the definition
    still holds at the end."""
    for k, s in enumerate(stmts):
        if isinstance(s, ast.Assign) and len(s.targets) == 1 and isinstance(s.targets[0], ast.Name) and s.targets[0].id == nm:
            return False
        if isinstance(s, ast.If):
            sc = _SubstConst(nm, const)
            s.test = sc.visit(s.test)
            counter[0] += sc.n
            a = _subst_until_store(s.body, nm, const, counter)
            b = _subst_until_store(s.orelse, nm, const, counter)
            if not (a and b):
                return False
            continue
        if isinstance(s, (ast.For, ast.AsyncFor, ast.While, ast.Try, ast.With, ast.AsyncWith, ast.FunctionDef, ast.AsyncFunctionDef, ast.ClassDef, ast.Match)):
            if _store_nodes(s, nm) or _closure_uses(s, nm):
                return False
            sc = _SubstConst(nm, const)
            stmts[k] = sc.visit(s)
            counter[0] += sc.n
            continue
        if _closure_uses(s, nm):
            return False
        sc = _SubstConst(nm, const)
        stmts[k] = sc.visit(s)
        counter[0] += sc.n
    return True


def propagate_flag_constants(fn: ast.AST) -> int:
    flags = _flag_names(fn)
    n = [0]
    if not flags:
        return 0
    bound = _bound_names(fn)
    for blk, _o, _f in _blocks_with_owner(fn):
        for i, st in enumerate(blk):
            nm = _const_assign(st, bound)
            if nm in flags:
                tail = blk[i + 1 :]
                _subst_until_store(tail, nm, st.value, n)
                blk[i + 1 :] = tail
    # F5: flags nobody reads any more
    for nm in flags:
        if _uses(fn, nm) == 0:
            for blk, _o, _f in _blocks_with_owner(fn):
                kill = [s for s in blk if _const_assign(s, bound) == nm]
                for s in kill:
                    blk.remove(s)
                    n[0] += 1
                if not blk:
                    blk.append(ast.Pass())
    return n[0]


# ---------------------------------------------------------------- F4

def _truth(e: ast.expr) -> Optional[bool]:
    if isinstance(e, ast.Constant) and not isinstance(e.value, type(Ellipsis)):
        return bool(e.value)
    return None


class _FoldTests(ast.NodeTransformer):
    def __init__(self):
        self.n = 0

    def visit_UnaryOp(self, node: ast.UnaryOp):
        self.generic_visit(node)
        if isinstance(node.op, ast.Not):
            t = _truth(node.operand)
            if t is not None:
                self.n += 1
                return ast.copy_location(ast.Constant(not t), node)
        return node

    def visit_IfExp(self, node: ast.IfExp):
        self.generic_visit(node)
        t = _truth(node.test)
        if t is not None:
            self.n += 1
            return node.body if t else node.orelse
        return node

    def visit_BoolOp(self, node: ast.BoolOp):
        self.generic_visit(node)
        is_and = isinstance(node.op, ast.And)
        vals = []
        for k, v in enumerate(node.values):
            t = _truth(v)
            last = k == len(node.values) - 1
            if t is None or last:
                vals.append(v)
                continue
            if t == is_and:
                self.n += 1
                continue  # neutral element, not last: dropped
            vals.append(v)  # absorbing element: the value of the whole expression; later operands never run
            self.n += 1 if not last else 0
            break
        if len(vals) == 1:
            return vals[0]
        node.values = vals
        return node

    def visit_Compare(self, node: ast.Compare):
        self.generic_visit(node)
        if len(node.ops) == 1 and isinstance(node.ops[0], (ast.Is, ast.IsNot)):
            l, r = node.left, node.comparators[0]
            for a, b in ((l, r), (r, l)):
                if isinstance(b, ast.Constant) and b.value is None:
                    notnone = (isinstance(a, ast.Constant) and a.value is not None) or isinstance(a, (ast.Lambda, ast.Dict, ast.List, ast.Tuple, ast.Set, ast.JoinedStr)) or (isinstance(a, ast.Name) and a.id in _NON_NONE_BUILTINS) \
                        or (isinstance(a, ast.Name) and a.id in _ONCE.get("defs", ()) and a.id not in _ONCE.get("locals", ()))
                    if notnone:
                        self.n += 1
                        return ast.copy_location(ast.Constant(isinstance(node.ops[0], ast.IsNot)), node)
        if len(node.ops) == 1 and isinstance(node.left, ast.Constant) and isinstance(node.comparators[0], ast.Constant):
            a, b = node.left.value, node.comparators[0].value
            op = node.ops[0]
            singles = (None, True, False)
            if isinstance(op, (ast.Is, ast.IsNot)) and any(x is a for x in singles) and any(x is b for x in singles):
                self.n += 1
                return ast.copy_location(ast.Constant((a is b) == isinstance(op, ast.Is)), node)
            if isinstance(op, (ast.Eq, ast.NotEq)) and type(a) is type(b) and isinstance(a, (str, int, bool, type(None))):
                self.n += 1
                return ast.copy_location(ast.Constant((a == b) == isinstance(op, ast.Eq)), node)
        return node


def _strip_neutral_last(test: ast.expr) -> ast.expr:
    """In test position only truthiness matters: `e and True` -> e, `e or False` -> e."""
    if isinstance(test, ast.BoolOp) and len(test.values) >= 2:
        t = _truth(test.values[-1])
        if t is not None and t == isinstance(test.op, ast.And):
            vals = test.values[:-1]
            return vals[0] if len(vals) == 1 else ast.copy_location(ast.BoolOp(test.op, vals), test)
    return test


def prune_constant_tests(fn: ast.AST) -> int:
    f = _FoldTests()
    for fld in ("body",):
        body = getattr(fn, fld)
        for k, s in enumerate(body):
            body[k] = f.visit(s)
    n = f.n
    for _round in range(6):
        did = False
        for blk, _o, _f in _blocks_with_owner(fn):
            for i, st in enumerate(blk):
                if isinstance(st, ast.If):
                    st.test = _strip_neutral_last(st.test)
                    t = _truth(st.test)
                    if t is not None:
                        take = st.body if t else st.orelse
                        blk[i : i + 1] = [s for s in take if not isinstance(s, ast.Pass)] or ([ast.copy_location(ast.Pass(), st)] if len(blk) == 1 else [])
                        n += 1
                        did = True
                        break
            if did:
                break
        if not did:
            break
    return n


# ---------------------------------------------------------------- F6

def _owner_index(fn: ast.AST, blk: List[ast.stmt]):
    """(containing block, index of the statement that owns blk, owner statement) or None at function level."""
    for b2, _o, _f in _blocks_with_owner(fn):
        for k, s in enumerate(b2):
            if isinstance(s, (ast.FunctionDef, ast.AsyncFunctionDef, ast.ClassDef)):
                continue
            for fld in ("body", "orelse", "finalbody"):
                if getattr(s, fld, None) is blk:
                    return b2, k, s
            if isinstance(s, ast.Try):
                for h in s.handlers:
                    if h.body is blk:
                        return b2, k, s
    return None


def live_in(stmts: Sequence[ast.stmt], nm: str, noreturn: Set[str]) -> Optional[bool]:
    """Running `stmts` from their start: True when nm may be read before it is bound again, False when it is bound
    again (or the block ends the function) before any read on every path, None when control falls off the end
    without either."""
    for s in stmts:
        if isinstance(s, ast.Assign) and len(s.targets) == 1 and isinstance(s.targets[0], ast.Name) and s.targets[0].id == nm:
            return bool(_uses(s.value, nm))
        if isinstance(s, ast.If):
            if _uses(s.test, nm):
                return True
            a = live_in(s.body, nm, noreturn)
            b = live_in(s.orelse, nm, noreturn)
            if a is True or b is True:
                return True
            if a is False and b is False:
                return False
            continue
        if isinstance(s, (ast.For, ast.AsyncFor)) and any(isinstance(x, ast.Name) and x.id == nm for x in ast.walk(s.target)):
            # the loop binds the name itself before its body reads it; with no iteration the old value flows on
            if _uses(s.iter, nm) or _uses(s.orelse, nm):
                return True
            continue
        if isinstance(s, (ast.For, ast.AsyncFor, ast.While)):
            # (a loop that does not bind the name in its header) read in the header, or in the body before the body
            # binds it again: live; a body that never reads it, or binds it first: the old value may still flow past
            hdr = s.iter if isinstance(s, (ast.For, ast.AsyncFor)) else s.test
            if _uses(hdr, nm) or _closure_uses(s, nm):
                return True
            if live_in(s.body, nm, noreturn) is True or live_in(s.orelse, nm, noreturn) is True:
                return True
            continue
        if isinstance(s, (ast.With, ast.AsyncWith)):
            if any(_uses(it.context_expr, nm) for it in s.items):
                return True
            r_ = live_in(s.body, nm, noreturn)
            if r_ is not None:
                return r_
            continue
        if isinstance(s, ast.Try):
            # read before being bound again in the body, a handler, else or finally: live; otherwise the old value may
            # still flow past (an exception can leave the body before it binds the name)
            if live_in(s.body, nm, noreturn) is True or any(live_in(h.body, nm, noreturn) is True for h in s.handlers) or live_in(s.orelse, nm, noreturn) is True or live_in(s.finalbody, nm, noreturn) is True:
                return True
            if _closure_uses(s, nm):
                return True
            continue
        if isinstance(s, (ast.FunctionDef, ast.AsyncFunctionDef, ast.ClassDef)):
            if _closure_uses([s], nm) or (isinstance(s, ast.ClassDef) and _uses(s, nm)):
                return True
            continue
        if _uses(s, nm):
            return True
        if isinstance(s, ast.Match):
            continue
        if _ends([s], noreturn):
            return False
    return None


def live_after(fn: ast.AST, blk: List[ast.stmt], j: int, nm: str, noreturn: Set[str]) -> bool:
    """May a load of nm execute after blk[j] completes?  Conservative."""
    while True:
        rest = blk[j + 1 :]
        r = live_in(rest, nm, noreturn)
        if r is not None:
            return r
        if rest and _ends(rest, noreturn):
            return False
        up = _owner_index(fn, blk)
        if up is None:
            return False
        b2, k, owner = up
        if isinstance(owner, (ast.For, ast.AsyncFor, ast.While)):
            # around the back edge: live when the next iteration may read it before binding it again
            if isinstance(owner, ast.While) and _uses(owner.test, nm):
                return True
            binds = isinstance(owner, (ast.For, ast.AsyncFor)) and any(isinstance(x, ast.Name) and x.id == nm for x in ast.walk(owner.target))
            if not binds and live_in(owner.body, nm, noreturn) is True:
                return True
            if _uses(owner.orelse, nm):
                return True
        if isinstance(owner, ast.Try):
            # from inside a try statement control may go on into a handler, the else or the finally block
            if any(live_in(h.body, nm, noreturn) is True for h in owner.handlers if h.body is not blk) or (owner.orelse is not blk and live_in(owner.orelse, nm, noreturn) is True) or (owner.finalbody is not blk and live_in(owner.finalbody, nm, noreturn) is True):
                return True
        blk, j = b2, k


def collapse_rebinding_chains(fn: ast.AST, noreturn: Set[str]) -> int:
    from .canon import _first_evaluated_use, _Subst

    changed = 0
    for _round in range(6):
        did = False
        for blk, _o, _f in _blocks_with_owner(fn):
            for i, st in enumerate(blk):
                if not (isinstance(st, ast.Assign) and len(st.targets) == 1 and isinstance(st.targets[0], ast.Name)) or i + 1 >= len(blk):
                    continue
                nm = st.targets[0].id
                if nm.startswith("__"):
                    continue
                nxt = blk[i + 1]
                if isinstance(nxt, ast.If):
                    # `n = e; if T(n): A else: B` with n read once, first, in the test and dead in A, B and afterwards
                    if _uses(nxt.test, nm) != 1 or not _first_evaluated_use(ast.Expr(nxt.test), nm) or _closure_uses(fn, nm):
                        continue
                    a = live_in(nxt.body, nm, noreturn)
                    b = live_in(nxt.orelse, nm, noreturn)
                    if a is True or b is True:
                        continue
                    if (a is None or b is None) and live_after(fn, blk, i + 1, nm, noreturn):
                        continue
                    if len(_store_nodes(fn, nm)) == 1:
                        continue
                    nxt.test = _Subst(nm, st.value).visit(nxt.test)
                    del blk[i]
                    changed += 1
                    did = True
                    break
                if _uses(nxt, nm) != 1 or not _first_evaluated_use(nxt, nm):
                    continue
                if isinstance(nxt, (ast.For, ast.AsyncFor, ast.While, ast.If, ast.Try, ast.With)):
                    continue
                if _closure_uses(fn, nm):
                    continue
                # the next statement may rebind nm itself (`n = f(n)`); otherwise nm must be dead after it
                rebinds = isinstance(nxt, ast.Assign) and len(nxt.targets) == 1 and isinstance(nxt.targets[0], ast.Name) and nxt.targets[0].id == nm
                if not rebinds and live_after(fn, blk, i + 1, nm, noreturn):
                    continue
                if len(_store_nodes(fn, nm)) == 1 and not rebinds:
                    continue  # single-binding temporaries are C5's business (same result, its side conditions)
                _Subst(nm, st.value).visit(nxt)
                del blk[i]
                changed += 1
                did = True
                break
            if did:
                break
        if not did:
            break
    return changed


# ---------------------------------------------------------------- F7: table dispatch written as a dictionary lookup

def _literal_table(e: ast.expr, bound: Set[str]) -> Optional[List[Tuple[ast.Constant, ast.expr]]]:
    if not isinstance(e, ast.Dict) or not e.keys or len(e.keys) > 16:
        return None
    rows = []
    seen = set()
    for k, v in zip(e.keys, e.values):
        if not (isinstance(k, ast.Constant) and isinstance(k.value, (str, int)) and not isinstance(k.value, bool)):
            return None
        if k.value in seen or not _flag_value(v, bound):
            return None
        seen.add(k.value)
        rows.append((k, v))
    return rows


def expand_table_lookups(fn: ast.AST) -> int:
    """`x = {k1: v1, ..}.get(K[, d])`  ==  `if K == k1: x = v1 elif .. else: x = d`   (literal table, constant keys,
    values that are the same whenever read; K a plain name).  `K in {k1: v1, ..}` == `K in (k1, ..)`."""
    n = 0
    bound = _bound_names(fn)
    for blk, _o, _f in _blocks_with_owner(fn):
        for i, st in enumerate(list(blk)):
            if not (isinstance(st, ast.Assign) and len(st.targets) == 1 and isinstance(st.targets[0], ast.Name)):
                continue
            v = st.value
            if isinstance(v, ast.Call) and isinstance(v.func, ast.Attribute) and v.func.attr == "get" and not v.keywords and len(v.args) in (1, 2) and isinstance(v.args[0], ast.Name):
                rows = _literal_table(v.func.value, bound)
                if rows is None:
                    continue
                key = v.args[0]
                dflt = v.args[1] if len(v.args) == 2 else ast.Constant(None)
                if not _flag_value(dflt, bound) or key.id == st.targets[0].id:
                    continue
                tgt = st.targets[0].id
                chain: List[ast.stmt] = [ast.Assign([ast.Name(tgt, ast.Store())], copy.deepcopy(dflt))]
                for k, val in reversed(rows):
                    chain = [ast.If(ast.Compare(ast.Name(key.id, ast.Load()), [ast.Eq()], [ast.Constant(k.value)]), [ast.Assign([ast.Name(tgt, ast.Store())], copy.deepcopy(val))], chain)]
                new = ast.copy_location(chain[0], st)
                ast.fix_missing_locations(new)
                blk[blk.index(st)] = new
                n += 1

    class _In(ast.NodeTransformer):
        def __init__(self):
            self.n = 0

        def visit_Compare(self, node):
            self.generic_visit(node)
            if len(node.ops) == 1 and isinstance(node.ops[0], (ast.In, ast.NotIn)) and isinstance(node.comparators[0], ast.Dict) and _literal_table(node.comparators[0], bound) is not None:
                node.comparators[0] = ast.copy_location(ast.Tuple([ast.Constant(k.value) for k in node.comparators[0].keys], ast.Load()), node.comparators[0])
                self.n += 1
            return node

        def visit_Subscript(self, node):
            self.generic_visit(node)
            # {k1: v1, ..}["k1"] == v1
            if isinstance(node.ctx, ast.Load) and isinstance(node.slice, ast.Constant) and isinstance(node.value, ast.Dict):
                rows = _literal_table(node.value, bound)
                if rows is not None:
                    for k, v in rows:
                        if k.value == node.slice.value and type(k.value) is type(node.slice.value):
                            self.n += 1
                            return copy.deepcopy(v)
            return node

    t = _In()
    for k, s_ in enumerate(fn.body):
        fn.body[k] = t.visit(s_)
    if t.n:
        ast.fix_missing_locations(fn)
    return n + t.n


# ---------------------------------------------------------------- F8: what a string test establishes

class _KeyUse(ast.NodeTransformer):
    """Inside the branch taken when `K == "lit"` (K a name that is not bound again there): K is "lit" where it is used
    to look something up — `getattr(o, K)`, `table[K]`, `table.get(K)`."""

    def __init__(self, name: str, const):
        self.name, self.const, self.n = name, const, 0

    def _is(self, e):
        return isinstance(e, ast.Name) and e.id == self.name and isinstance(e.ctx, ast.Load)

    def visit_Call(self, node):
        self.generic_visit(node)
        if isinstance(node.func, ast.Name) and node.func.id == "getattr" and len(node.args) >= 2 and self._is(node.args[1]):
            node.args[1] = ast.copy_location(ast.Constant(self.const), node.args[1])
            self.n += 1
        elif isinstance(node.func, ast.Attribute) and node.func.attr == "get" and node.args and self._is(node.args[0]) and isinstance(node.func.value, ast.Dict):
            node.args[0] = ast.copy_location(ast.Constant(self.const), node.args[0])
            self.n += 1
        return node

    def visit_Subscript(self, node):
        self.generic_visit(node)
        if isinstance(node.ctx, ast.Load) and self._is(node.slice) and isinstance(node.value, ast.Dict):
            node.slice = ast.copy_location(ast.Constant(self.const), node.slice)
            self.n += 1
        return node


def propagate_key_tests(fn: ast.AST) -> int:
    n = 0
    for node in ast.walk(fn):
        if not isinstance(node, ast.If):
            continue
        t = node.test
        if isinstance(t, ast.Compare) and len(t.ops) == 1 and isinstance(t.ops[0], ast.Eq):
            l, r = t.left, t.comparators[0]
            if isinstance(r, ast.Name) and isinstance(l, ast.Constant):
                l, r = r, l
            if isinstance(l, ast.Name) and isinstance(r, ast.Constant) and isinstance(r.value, str):
                if _store_nodes(node.body, l.id) or _closure_uses(node.body, l.id):
                    continue
                ku = _KeyUse(l.id, r.value)
                node.body = [ku.visit(s_) for s_ in node.body]
                n += ku.n
    if n:
        ast.fix_missing_locations(fn)
    return n


# ---------------------------------------------------------------- F9: no merge point for values chosen by a branch

def sink_small_continuations(fn: ast.AST, noreturn: Set[str]) -> int:
    """`if c: x = A else: x = B` followed by a few simple statements that are the only readers of x: the statements
    move into the branches (where x is then a single-use temporary)."""
    changed = 0
    for _round in range(6):
        did = False
        for blk, _o, _f in _blocks_with_owner(fn):
            for i, st in enumerate(blk):
                if not isinstance(st, ast.If) or i + 1 >= len(blk):
                    continue
                rest = blk[i + 1 :]
                if len(rest) > 3 or not all(isinstance(s_, (ast.Assign, ast.AugAssign, ast.Expr, ast.Return, ast.Raise)) for s_ in rest):
                    continue
                if any(isinstance(n_, (ast.Lambda, ast.Yield, ast.YieldFrom, ast.Await)) for s_ in rest for n_ in ast.walk(s_)):
                    continue
                leaves = _chain_leaves(st)
                open_leaves = [(o, f) for o, f in leaves if not _ends(getattr(o, f), noreturn)]
                # a lone, small `return e` / `raise e` after a decision some of whose branches have already left: every branch ends
                # in its own exit (`if a: pass elif b: return x` + `return y`  ==  `if a: return y elif b: return x else: return y`)
                if len(rest) == 1 and isinstance(rest[0], (ast.Return, ast.Raise)) and len(ast.unparse(rest[0])) < 100 and 1 <= len(open_leaves) <= 3 and len(open_leaves) < len(leaves) \
                        and all(len([x for x in getattr(o, f) if not isinstance(x, ast.Pass)]) == 0 for o, f in open_leaves):
                    for o, f in open_leaves:
                        setattr(o, f, [copy.deepcopy(rest[0])])
                    del blk[i + 1 :]
                    changed += 1
                    did = True
                    break
                if len(open_leaves) < 2 or len(open_leaves) > MAX_LEAVES:
                    continue
                # names bound by a plain assignment at the top level of every open leaf ...
                def top_assigned(b):
                    return {s_.targets[0].id for s_ in b if isinstance(s_, ast.Assign) and len(s_.targets) == 1 and isinstance(s_.targets[0], ast.Name)}
                common = None
                for o, f in open_leaves:
                    ta = top_assigned(getattr(o, f))
                    common = ta if common is None else (common & ta)
                if not common:
                    continue
                # ... read in the continuation, and nowhere else in the function
                hit = [nm for nm in sorted(common) if _uses(rest, nm) and _uses(fn, nm) == _uses(rest, nm) + sum(_uses(getattr(o, f), nm) for o, f in leaves) and not nm.startswith("__")]
                # (a leaf may read its own earlier binding of the name; that stays inside the leaf)
                if not hit:
                    continue
                if any(_store_nodes(rest, nm) for nm in hit):
                    continue
                for o, f in open_leaves:
                    b = getattr(o, f)
                    b[:] = [s_ for s_ in b if not isinstance(s_, ast.Pass)] + [copy.deepcopy(s_) for s_ in rest]
                del blk[i + 1 :]
                changed += 1
                did = True
                break
            if did:
                break
        if not did:
            break
    return changed


def run(fn: ast.AST, noreturn: Set[str]) -> int:
    cnt: Dict[str, int] = {}
    for x in ast.walk(fn):
        if isinstance(x, ast.Name) and isinstance(x.ctx, (ast.Store, ast.Del)):
            cnt[x.id] = cnt.get(x.id, 0) + 1
        elif isinstance(x, ast.arg):
            cnt[x.arg] = cnt.get(x.arg, 0) + 1
    _ONCE["names"] = {k for k, v in cnt.items() if v == 1}
    _ONCE["locals"] = set(cnt)
    ld: Dict[str, int] = {}
    for x in ast.walk(fn):
        if isinstance(x, (ast.FunctionDef, ast.AsyncFunctionDef)) and x is not fn:
            ld[x.name] = ld.get(x.name, 0) + 1
    _ONCE["localdefs"] = {k for k, v in ld.items() if v == 1 and k not in cnt}
    n = drop_self_assignments(fn)
    for _k in range(4):
        e = expand_table_lookups(fn)
        a = tail_duplicate_flags(fn, noreturn) + sink_sole_decision(fn, noreturn) + membership_spellings(fn, noreturn)
        g = sink_small_continuations(fn, noreturn)
        b = propagate_flag_constants(fn)
        c = prune_constant_tests(fn)
        f = propagate_key_tests(fn)
        d = collapse_rebinding_chains(fn, noreturn)
        n += a + b + c + d + e + f + g
        if not (a or b or c or d or e or f or g):
            break
    return n
