"""hsa — Hdl21 static analysis.

Pure standard library.  Reads /repo sources with `ast`; never imports or runs
anything under /repo.
"""
