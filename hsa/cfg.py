"""Statement-level control-flow graph with exceptional edges, and a small
path-sensitive forward dataflow engine over sets of "worlds" (sets of facts).

Edges carry labels: 'next', 'true', 'false', 'iter', 'done', 'exc', 'caught',
'ret', 'brk', 'cont'.  `return` / `break` / `continue` / exceptions leaving a
`try ... finally` are routed through a private copy of the finally body.
"""

from __future__ import annotations

import ast
from dataclasses import dataclass, field
from typing import Callable, Dict, FrozenSet, Iterable, List, Optional, Set, Tuple

from .core import dotted

# Calls that cannot raise for the purposes of the pairing rules: built-in
# container methods and a few total built-ins (DESIGN §2, CFG row).
SAFE_METHODS = {
    "append", "add", "discard", "get", "items", "values", "keys", "copy",
    "startswith", "endswith", "join", "format", "lower", "upper", "ljust",
    "setdefault", "extend", "clear", "update",
}
SAFE_FUNCS = {"isinstance", "len", "id", "hash", "list", "tuple", "dict", "set", "str", "repr", "bool", "type", "getattr", "hasattr", "frozenset", "sorted", "reversed", "enumerate", "zip", "range", "any", "all", "print"}


def default_may_raise(node: ast.AST) -> bool:
    """Conservative: a statement/expression may raise if it is raise/assert or
    contains a call other than the safe ones.  `remove`/`pop` on containers can
    raise KeyError/IndexError and are *not* safe."""
    if isinstance(node, (ast.Raise, ast.Assert)):
        return True
    for n in _walk_expr(node):
        if isinstance(n, ast.Call):
            f = n.func
            if isinstance(f, ast.Name) and f.id in SAFE_FUNCS:
                continue
            if isinstance(f, ast.Attribute) and f.attr in SAFE_METHODS:
                continue
            return True
    return False


def _walk_expr(node):
    stack = [node]
    while stack:
        n = stack.pop()
        if isinstance(n, (ast.FunctionDef, ast.AsyncFunctionDef, ast.ClassDef, ast.Lambda)) and n is not node:
            continue
        yield n
        stack.extend(ast.iter_child_nodes(n))


@dataclass
class Node:
    id: int
    kind: str  # entry exit raise stmt test for with join handler
    ast: Optional[ast.AST] = None  # statement, or the compound statement for test/for/with
    expr: Optional[ast.AST] = None  # the evaluated expression for test/for/with nodes
    note: str = ""

    @property
    def lineno(self) -> int:
        return getattr(self.ast, "lineno", 0) if self.ast is not None else 0

    def __repr__(self):
        t = ""
        if self.kind == "stmt" and self.ast is not None:
            t = ast.unparse(self.ast).split("\n")[0][:60]
        elif self.expr is not None:
            t = ast.unparse(self.expr)[:60]
        return f"<{self.id}:{self.kind}@{self.lineno} {t}{self.note}>"


class CFG:
    def __init__(self, fn: ast.AST, may_raise: Callable[[ast.AST], bool] = default_may_raise):
        self.fn = fn
        self.may_raise = may_raise
        self.nodes: List[Node] = []
        self.succ: Dict[int, List[Tuple[int, str]]] = {}
        self.pred: Dict[int, List[Tuple[int, str]]] = {}
        self.entry = self._new("entry")
        self.exit = self._new("exit")
        self.raise_exit = self._new("raise")
        ctx = _Ctx(exc=self.raise_exit.id, ret=self.exit.id, brk=None, cont=None)
        body = fn.body if hasattr(fn, "body") else [fn]
        outs = self._seq(body, [(self.entry.id, "next")], ctx)
        for src, lab in outs:
            self._edge(src, self.exit.id, lab)
        self.by_ast: Dict[int, List[Node]] = {}
        for n in self.nodes:
            if n.ast is not None:
                self.by_ast.setdefault(id(n.ast), []).append(n)

    # ------------------------------------------------------------ building

    def _new(self, kind, ast_=None, expr=None, note="") -> Node:
        n = Node(len(self.nodes), kind, ast_, expr, note)
        self.nodes.append(n)
        self.succ[n.id] = []
        self.pred[n.id] = []
        return n

    def _edge(self, a: int, b: int, label: str):
        if (b, label) not in self.succ[a]:
            self.succ[a].append((b, label))
            self.pred[b].append((a, label))

    def _attach(self, preds, node: Node):
        for src, lab in preds:
            self._edge(src, node.id, lab)

    def _seq(self, body, preds, ctx) -> List[Tuple[int, str]]:
        for st in body:
            if not preds:
                # unreachable code after return/raise: still build it detached
                pass
            preds = self._stmt(st, preds, ctx)
        return preds

    def _stmt(self, st, preds, ctx) -> List[Tuple[int, str]]:
        if isinstance(st, ast.If):
            t = self._new("test", st, st.test)
            self._attach(preds, t)
            if self.may_raise(st.test):
                self._edge(t.id, ctx.exc, "exc")
            o1 = self._seq(st.body, [(t.id, "true")], ctx)
            o2 = self._seq(st.orelse, [(t.id, "false")], ctx)
            return o1 + o2
        if isinstance(st, ast.While):
            t = self._new("test", st, st.test)
            self._attach(preds, t)
            if self.may_raise(st.test):
                self._edge(t.id, ctx.exc, "exc")
            brk = self._new("join", st, note=" while-exit")
            inner = _Ctx(ctx.exc, ctx.ret, brk.id, t.id)
            o = self._seq(st.body, [(t.id, "true")], inner)
            for s, l in o:
                self._edge(s, t.id, l)
            const_true = isinstance(st.test, ast.Constant) and bool(st.test.value) is True
            oe = self._seq(st.orelse, [] if const_true else [(t.id, "false")], ctx)
            outs = list(oe)
            if self.pred[brk.id]:
                outs.append((brk.id, "next"))
            return outs
        if isinstance(st, (ast.For, ast.AsyncFor)):
            h = self._new("for", st, st.iter)
            self._attach(preds, h)
            if self.may_raise(st.iter):
                self._edge(h.id, ctx.exc, "exc")
            brk = self._new("join", st, note=" for-exit")
            inner = _Ctx(ctx.exc, ctx.ret, brk.id, h.id)
            o = self._seq(st.body, [(h.id, "iter")], inner)
            for s, l in o:
                self._edge(s, h.id, l)
            oe = self._seq(st.orelse, [(h.id, "done")], ctx)
            outs = list(oe)
            if self.pred[brk.id]:
                outs.append((brk.id, "next"))
            return outs
        if isinstance(st, (ast.With, ast.AsyncWith)):
            w = self._new("with", st, st)
            self._attach(preds, w)
            if any(self.may_raise(i.context_expr) for i in st.items):
                self._edge(w.id, ctx.exc, "exc")
            return self._seq(st.body, [(w.id, "next")], ctx)
        if isinstance(st, ast.Try) or st.__class__.__name__ == "TryStar":
            return self._try(st, preds, ctx)
        if isinstance(st, ast.Return):
            n = self._new("stmt", st)
            self._attach(preds, n)
            if st.value is not None and self.may_raise(st.value):
                self._edge(n.id, ctx.exc, "exc")
            self._edge(n.id, ctx.ret, "ret")
            return []
        if isinstance(st, ast.Raise):
            n = self._new("stmt", st)
            self._attach(preds, n)
            self._edge(n.id, ctx.exc, "exc")
            return []
        if isinstance(st, ast.Break):
            n = self._new("stmt", st)
            self._attach(preds, n)
            if ctx.brk is not None:
                self._edge(n.id, ctx.brk, "brk")
            return []
        if isinstance(st, ast.Continue):
            n = self._new("stmt", st)
            self._attach(preds, n)
            if ctx.cont is not None:
                self._edge(n.id, ctx.cont, "cont")
            return []
        if isinstance(st, ast.Match):
            m = self._new("test", st, st.subject)
            self._attach(preds, m)
            outs = [(m.id, "false")]
            for case in st.cases:
                outs += self._seq(case.body, [(m.id, "true")], ctx)
            return outs
        # simple statement (incl. nested def/class, which do not execute their bodies)
        n = self._new("stmt", st)
        self._attach(preds, n)
        if not isinstance(st, (ast.FunctionDef, ast.AsyncFunctionDef, ast.ClassDef)) and self.may_raise(st):
            self._edge(n.id, ctx.exc, "exc")
        if isinstance(st, ast.Assert):
            pass
        return [(n.id, "next")]

    def _try(self, st, preds, ctx) -> List[Tuple[int, str]]:
        has_finally = bool(st.finalbody)
        if has_finally:
            f_exc = self._new("join", st, note=" finally<-exc")
            f_ret = self._new("join", st, note=" finally<-ret")
            f_brk = self._new("join", st, note=" finally<-brk") if ctx.brk is not None else None
            f_cont = self._new("join", st, note=" finally<-cont") if ctx.cont is not None else None
            mid = _Ctx(f_exc.id, f_ret.id, f_brk.id if f_brk else None, f_cont.id if f_cont else None)
        else:
            mid = ctx
        outs: List[Tuple[int, str]] = []
        if st.handlers:
            disp = self._new("join", st, note=" except-dispatch")
            body_ctx = _Ctx(disp.id, mid.ret, mid.brk, mid.cont)
            o = self._seq(st.body, preds, body_ctx)
            catch_all = False
            for h in st.handlers:
                hn = self._new("handler", h)
                self._edge(disp.id, hn.id, "caught")
                outs += self._seq(h.body, [(hn.id, "next")], mid)
                if _is_catch_all(h):
                    catch_all = True
            if not catch_all:
                self._edge(disp.id, mid.exc, "exc")
            o = self._seq(st.orelse, o, mid)
            outs += o
        else:
            o = self._seq(st.body, preds, mid)
            o = self._seq(st.orelse, o, mid)
            outs += o
        if not has_finally:
            return outs
        # normal completion -> finally -> fallthrough
        result: List[Tuple[int, str]] = []
        if outs:
            j = self._new("join", st, note=" finally<-normal")
            self._attach(outs, j)
            result = self._seq(st.finalbody, [(j.id, "next")], ctx)
        for join, target, lab in (
            (f_exc, ctx.exc, "exc"),
            (f_ret, ctx.ret, "ret"),
            (f_brk, ctx.brk, "brk"),
            (f_cont, ctx.cont, "cont"),
        ):
            if join is None or not self.pred[join.id]:
                continue
            o = self._seq(st.finalbody, [(join.id, "next")], ctx)
            for s, _l in o:
                self._edge(s, target, lab)
        return result

    # ------------------------------------------------------------ queries

    def nodes_for(self, a: ast.AST) -> List[Node]:
        return self.by_ast.get(id(a), [])

    def stmt_nodes(self) -> Iterable[Node]:
        return (n for n in self.nodes if n.kind in ("stmt", "test", "for", "with"))

    def reachable(self, start: Optional[int] = None) -> Set[int]:
        start = self.entry.id if start is None else start
        seen, st = {start}, [start]
        while st:
            x = st.pop()
            for y, _ in self.succ[x]:
                if y not in seen:
                    seen.add(y)
                    st.append(y)
        return seen


@dataclass
class _Ctx:
    exc: int
    ret: int
    brk: Optional[int]
    cont: Optional[int]


def _is_catch_all(h: ast.ExceptHandler) -> bool:
    if h.type is None:
        return True
    names = []
    t = h.type
    for e in t.elts if isinstance(t, ast.Tuple) else [t]:
        names.append(dotted(e) or "")
    return any(n.split(".")[-1] in ("Exception", "BaseException") for n in names)


# --------------------------------------------------------------------------
# Dataflow over worlds
# --------------------------------------------------------------------------

World = FrozenSet[object]


def _pure_cond(e: ast.AST) -> bool:
    """A condition whose truth value is stable along a path: names, attribute
    chains, constants, comparisons, `not`, `and`/`or`, `is None` — no calls."""
    for n in ast.walk(e):
        if isinstance(n, (ast.Call, ast.Subscript, ast.Await, ast.NamedExpr, ast.Lambda, ast.IfExp)):
            return False
    return True


def _cond_key(e: ast.AST) -> Tuple[str, bool]:
    pol = True
    while isinstance(e, ast.UnaryOp) and isinstance(e.op, ast.Not):
        pol = not pol
        e = e.operand
    return ast.unparse(e), pol


class Client:
    """Override `transfer` (effect of a node on one world) and optionally
    `on_edge`.  Facts are any hashable values; ('cond', text, bool) facts are
    managed by the engine for branch correlation."""

    track_conditions = True

    def init(self) -> Iterable[World]:
        return [frozenset()]

    def transfer(self, node: Node, world: World) -> Iterable[World]:
        return [world]

    def on_edge(self, node: Node, label: str, world: World) -> Optional[World]:
        return world

    # which edges see the state *before* the node's own effect
    pre_state_labels = ("exc",)


def _assigned_names(st: ast.AST) -> Set[str]:
    out = set()
    for n in _walk_expr(st):
        if isinstance(n, (ast.Name, ast.Attribute)) and isinstance(getattr(n, "ctx", None), (ast.Store, ast.Del)):
            d = dotted(n)
            if d:
                out.add(d)
    return out


def run(cfg: CFG, client: Client, max_worlds: int = 256) -> Dict[int, Set[World]]:
    """Forward may-analysis.  Returns the set of worlds that can *enter* each node."""
    IN: Dict[int, Set[World]] = {n.id: set() for n in cfg.nodes}
    IN[cfg.entry.id] = set(client.init())
    work = [cfg.entry.id]
    while work:
        nid = work.pop()
        node = cfg.nodes[nid]
        for w in list(IN[nid]):
            pre = w
            if node.kind in ("stmt", "with", "for", "test", "handler"):
                # kill correlated conditions whose variables are reassigned here
                if client.track_conditions and node.kind in ("stmt", "with", "for") and node.ast is not None:
                    target = node.ast
                    if node.kind == "for":
                        target = node.ast.target
                    elif node.kind == "with":
                        target = ast.Tuple([i.optional_vars for i in node.ast.items if i.optional_vars is not None], ast.Load())
                    killed = _assigned_names(target)
                    if killed:
                        w = frozenset(
                            f for f in w
                            if not (isinstance(f, tuple) and f and f[0] == "cond" and any(_mentions(f[1], k) for k in killed))
                        )
                        pre = w
                posts = list(client.transfer(node, w))
            else:
                posts = [w]
            for dst, label in cfg.succ[nid]:
                srcs = [pre] if label in client.pre_state_labels else posts
                for pw in srcs:
                    nw: Optional[World] = pw
                    if client.track_conditions and node.kind == "test" and label in ("true", "false") and isinstance(node.ast, (ast.If, ast.While)):
                        nw = _apply_cond(node.expr, label == "true", pw)
                    if nw is None:
                        continue
                    nw = client.on_edge(node, label, nw)
                    if nw is None:
                        continue
                    if nw not in IN[dst]:
                        if len(IN[dst]) >= max_worlds:
                            # widen: drop condition facts
                            nw = frozenset(f for f in nw if not (isinstance(f, tuple) and f and f[0] == "cond"))
                            if nw in IN[dst]:
                                continue
                        IN[dst].add(nw)
                        work.append(dst)
    return IN


def _mentions(text: str, name: str) -> bool:
    import re

    return re.search(r"(?<![\w.])" + re.escape(name) + r"(?![\w])", text) is not None


def _apply_cond(test: ast.AST, truth: bool, w: World) -> Optional[World]:
    """Refine world by a branch outcome; None if contradictory with earlier facts."""
    if not _pure_cond(test):
        return w
    # conjunction / disjunction: only the determinate direction is recorded
    if isinstance(test, ast.BoolOp):
        if isinstance(test.op, ast.And) and truth:
            for v in test.values:
                w = _apply_cond(v, True, w)
                if w is None:
                    return None
            return w
        if isinstance(test.op, ast.Or) and not truth:
            for v in test.values:
                w = _apply_cond(v, False, w)
                if w is None:
                    return None
            return w
        return w
    text, pol = _cond_key(test)
    val = truth if pol else (not truth)
    if ("cond", text, not val) in w:
        return None
    return w | {("cond", text, val)}


# --------------------------------------------------------------------------
# classical reaching definitions for one local name
# --------------------------------------------------------------------------


def _defines(node: Node, name: str) -> bool:
    tgt = None
    if node.kind == "stmt":
        st = node.ast
        if isinstance(st, (ast.FunctionDef, ast.AsyncFunctionDef, ast.ClassDef)):
            return st.name == name
        tgt = st
    elif node.kind == "for":
        tgt = node.ast.target
    elif node.kind == "with":
        tgt = ast.Tuple([i.optional_vars for i in node.ast.items if i.optional_vars is not None], ast.Load())
    elif node.kind == "handler":
        return node.ast.name == name
    if tgt is None:
        return False
    for n in _walk_expr(tgt):
        if isinstance(n, ast.Name) and n.id == name and isinstance(n.ctx, (ast.Store, ast.Del)):
            return True
    return False


def reaching_defs(cfg: CFG, name: str) -> Dict[int, Set[int]]:
    """node id -> ids of the CFG nodes whose definition of `name` may reach the
    node's entry.  The pseudo-definition -1 stands for "parameter / not yet bound"."""
    IN: Dict[int, Set[int]] = {n.id: set() for n in cfg.nodes}
    IN[cfg.entry.id] = {-1}
    work = [cfg.entry.id]
    while work:
        nid = work.pop()
        node = cfg.nodes[nid]
        out = {nid} if _defines(node, name) else set(IN[nid])
        for dst, label in cfg.succ[nid]:
            src = IN[nid] if label == "exc" else out
            if not src <= IN[dst]:
                IN[dst] |= src
                work.append(dst)
    return IN


def def_value(node: Node, name: str) -> Optional[ast.AST]:
    """The expression assigned to `name` by a plain `name = expr` node, else None."""
    st = node.ast
    if node.kind == "stmt" and isinstance(st, ast.Assign) and len(st.targets) == 1 and isinstance(st.targets[0], ast.Name) and st.targets[0].id == name:
        return st.value
    if node.kind == "stmt" and isinstance(st, ast.AnnAssign) and isinstance(st.target, ast.Name) and st.target.id == name:
        return st.value
    if node.kind == "stmt" and isinstance(st, ast.AugAssign) and isinstance(st.target, ast.Name) and st.target.id == name:
        # `x op= e` binds x to `x op e` (x as it reaches this statement)
        return ast.copy_location(ast.BinOp(ast.Name(name, ast.Load()), st.op, st.value), st)
    return None
