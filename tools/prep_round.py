#!/venv/bin/python
"""Prepare a seeding / refactoring round for independent sub-agents.

usage: prep_round.py seed <prefix>      e.g. seed s4   -> /tmp/s4_Cxx (worktree of /repo HEAD), /tmp/s4_Cxx_out
       prep_round.py benign <prefix>    e.g. benign rh -> /tmp/rh_Cxx, /tmp/rh_Cxx_out
Each out directory gets property.json (the one property's text) and INSTRUCTIONS.md.  Nothing from /verif
except the property text — and, for seeding rounds, one-paragraph summaries of the changes found so far — goes in.
"""
import json, subprocess, sys
from pathlib import Path

kind, pre = sys.argv[1], sys.argv[2]
props = [json.loads(l) for l in open("/verif/properties.jsonl")]

SEED = """You are helping test a verification tool by constructing a realistic, subtle regression ("seeded defect") in the Python library Hdl21 (an analog hardware description library).

Your private scratch git worktree of the library is at {wt} . Work ONLY inside {wt} and {out} . Do NOT read, list or touch /verif or /repo or any other directory under /tmp that is not yours - your work must be independent of them.

The semantic property you must BREAK is described in {out}/property.json (read it first: "statement" is the behaviour that must always hold, "quantifier" says over what, "anchors" names the files/mechanisms that are meant to make it hold).

Task: produce up to THREE different source changes to the library (each one separately, each starting from the clean worktree) such that:
 1. the change is small and realistic - the kind of slip or "simplification" a maintainer could commit (an off-by-one, a dropped or relaxed guard, a swapped argument, a missed case, two sites that each look fine alone, a stale cache entry, an ordering change, an aliasing mistake, a wrong exception class, a condition that is right for the common case only ...). Only edit library sources (hdl21/**, pdks/**), never tests, conftest or packaging.
 2. the library still imports and the existing test suite still passes completely:  cd {wt} && /venv/bin/python -m pytest -q -p no:cacheprovider    (expected: "224 passed"; same skipped/xfailed counts as the clean tree).
 3. the change makes the property FALSE, but only in a specific situation - it needs something particular to manifest (a particular input shape, an unusual but legal combination of features, a multi-step sequence of operations, a second call after a failure, a particular hash seed, two cooperating sites ...), not something ordinary use would expose at once.
 4. you have a demonstration: a self-contained script demo_<k>.py (run as  cd {wt} && /venv/bin/python {out}/demo_<k>.py ) that exits with status 0 and prints PASS on the CLEAN worktree and exits non-zero (assertion failure / wrong result detected) WITH your change applied. The script must check observable behaviour through the public API (exported package, netlist text, exceptions raised, object identity/names ...), not peek at the edited line.
 Prefer three changes that use DIFFERENT mechanisms / different places in the code; quality over quantity - one good one is better than three weak ones. Avoid changes that merely make something crash loudly on every use.

For each change k = 1, 2, 3 write into {out}/ :
   patch_<k>.diff   - output of `git -C {wt} diff` with ONLY that change applied (it must apply with `git apply` on the clean tree)
   demo_<k>.py      - the demonstration
   notes_<k>.md     - 5-10 lines: what was changed, why the property breaks, exactly what is needed for it to manifest, and the commands you ran with their results (test suite result with the change; demo result with and without the change).
Verify everything yourself: for each k, from a clean tree (git -C {wt} checkout -- . ), apply the patch, run the test suite (must be fully green), run the demo (must fail), undo (git checkout -- .), run the demo again (must print PASS, exit 0).
Leave the worktree CLEAN (git checkout -- .) when you finish. Do not commit anything.

Final answer: a short list - for each k: one line describing the change, and the observed results (suite / demo-with / demo-without).

ALREADY KNOWN changes for this property (found earlier by others) - do NOT repeat these or close variants of them; look for DIFFERENT mechanisms, different functions, different files among the property's anchors (and the code they call), or interactions between two sites:
{known}

IMPORTANT about demos: a script run by path does NOT import the worktree's hdl21 (an installed copy is found first). Start every demo with `import sys, os; sys.path.insert(0, os.getcwd())` (for the PDK packages also e.g. sys.path.insert(0, os.path.join(os.getcwd(), "pdks/Sky130"))) and assert that `hdl21.__file__` lies under the current directory; run it from the worktree directory.
"""

BENIGN = """You are helping test a verification tool. The tool must stay SILENT when code is restructured without any change of behaviour. Your job: produce behaviour-PRESERVING refactorings of the Python library Hdl21 (an analog hardware description library) that a checker written against the present shape of the code might wrongly complain about.

Your private scratch git worktree of the library is at {wt} . Work ONLY inside {wt} and {out} . Do NOT read, list or touch /verif or /repo or any other directory under /tmp that is not yours.

{out}/property.json describes one semantic property of the library ("statement"; "anchors" names the files / mechanisms that implement it). Refactor the code that IMPLEMENTS this property - the anchored functions and what they call.

Task: produce FIVE different refactorings (each separately, each starting from the clean worktree), each of which:
 1. keeps the observable behaviour of the library exactly the same for every input - same results, same exceptions (type and, where reasonable, message), same order of side effects that matter. No bug fixes, no behaviour "improvements".
 2. is the kind of change a maintainer really makes, and is NOT trivial: go beyond renaming. Ideas (use different ones across your five, combine them freely): extract or inline helper functions / methods; move a function into a class or out of it, or to the other end of the file; replace an if/elif chain by a dispatch table (of functions, of method names, of lambdas) or the reverse; replace a loop by a comprehension / generator / any() / all() / next() or the reverse; introduce or remove flag variables, early returns, guard clauses, try/else; split a function into a wrapper and a worker; merge two functions; use a NamedTuple / small dataclass instead of a tuple; hoist constants and tables to module level; change iteration idiom (items() / keys() / enumerate / zip); De Morgan and other boolean rewrites; cache a sub-expression in a local; reorder independent statements; change how a condition is spelled (membership vs comparisons, `is None` vs `.get`); replace recursion on a tail by a helper. Make at least two of the five structural (not just local re-spellings).
 3. keeps the test suite fully green:  cd {wt} && /venv/bin/python -m pytest -q -p no:cacheprovider   (expected "224 passed", same skipped/xfailed counts).
 4. comes with an argument (and, where you can, a differential test: run old and new code on many inputs and compare) that behaviour is unchanged.

For each k = 1..5 write into {out}/ :
   patch_<k>.diff  - output of `git -C {wt} diff` with ONLY that refactoring applied (must apply with `git apply` on the clean tree)
   notes_<k>.md    - what was restructured, the equivalence argument, the suite result, and any differential test you ran.
Leave the worktree CLEAN (git -C {wt} checkout -- .) when you finish. Do not commit anything.

Final answer: one line per refactoring.

Note: a script run by path does NOT import the worktree's hdl21 (an installed copy is found first). In any script start with `import sys, os; sys.path.insert(0, os.getcwd())` and run it from the worktree directory.
"""

for p in props:
    pid = p["id"]
    wt, out = Path(f"/tmp/{pre}_{pid}"), Path(f"/tmp/{pre}_{pid}_out")
    subprocess.run(f"git -C /repo worktree remove --force {wt}", shell=True, capture_output=True)
    subprocess.run(f"rm -rf {wt} {out}; git -C /repo worktree prune; git -C /repo worktree add -q --detach {wt} HEAD", shell=True, check=True)
    out.mkdir(parents=True)
    (out / "property.json").write_text(json.dumps(p, indent=1))
    if kind == "seed":
        known = []
        for d in sorted(Path("/verif/seeded").glob(f"{pid}-*")):
            try:
                m = json.loads((d / "meta.json").read_text())
            except Exception:
                continue
            txt = " ".join((m.get("needs_to_manifest") or "").split())[:330]
            if txt:
                known.append(f" - {txt}")
        (out / "INSTRUCTIONS.md").write_text(SEED.format(wt=wt, out=out, known="\n".join(known) or " - (none yet)"))
    else:
        (out / "INSTRUCTIONS.md").write_text(BENIGN.format(wt=wt, out=out))
    print(pid, wt, out)
