#!/venv/bin/python
"""Regenerate /verif/MANIFEST.json from the table below.  Run after adding a rule module."""
import json
from pathlib import Path

VERIF = Path(__file__).resolve().parent.parent
PY = "/venv/bin/python"

# property -> (claimed?, technique, what is decided, what is NOT decided / reason if not claimed)
TABLE = {}


def claim(pid, technique, decided, undecided, design_ref):
    TABLE[pid] = dict(claimed=True, technique=technique, decided=decided, undecided=undecided, design_ref=design_ref)


def na(pid, reason):
    TABLE[pid] = dict(claimed=False, reason=reason)


exec((VERIF / "tools" / "claims.py").read_text())

props = [json.loads(l) for l in (VERIF / "properties.jsonl").read_text().splitlines() if l.strip()]
checks, not_app = [], []
for p in props:
    pid = p["id"]
    t = TABLE.get(pid)
    if t is None:
        not_app.append({"property_id": pid, "reason": "check not built yet (static-analysis framework under construction)"})
        continue
    if not t["claimed"]:
        not_app.append({"property_id": pid, "reason": t["reason"]})
        continue
    checks.append(
        {
            "property_id": pid,
            "quick_cmd": f"{PY} -m hsa.check --prop {pid} --tier quick",
            "thorough_cmd": f"{PY} -m hsa.check --prop {pid} --tier thorough",
            "evidence_file": f"/verif/evidence/{pid}.json",
            "replay_cmd_template": f"{PY} -m hsa.check --replay {{path}}",
            "engine": "hsa",
            "level_claimed": {
                "category": "other",
                "text": "Static analysis of /repo's sources (nothing is executed). Decides structural clauses that are necessary conditions of the property: "
                + t["decided"],
                "design_ref": t["design_ref"],
            },
            "level_note": "NOT decided (honest remainder): " + t["undecided"]
            + " Trusted base: Python's ast module; anchors by qualified name/role (a vanished anchor is exit 2, never a pass); known_findings.txt.",
            "technique": t["technique"] + "; all rules read the canonical form of the source (hsa/canon.py: exact normalisation of guard clauses, test polarity, "
            "conditional expressions, temporaries, accumulation and dispatch loops; reference-guided inlining of new helpers/constants) and are stated over value provenance, "
            "path conditions with propositional reasoning, reaching-definition value alternatives and finite decision tables, so that behaviour-preserving refactorings do not change the verdict",
        }
    )

manifest = {
    "version": 1,
    "setup_cmd": "true",
    "hooks": {
        "guard": "HDL21_VERIF",
        "enable": "none needed: the checks read /repo's sources statically; no hook or instrumentation commit exists",
        "baseline_off_cmd": "cd /repo && /venv/bin/python -m pytest -ra -q -p no:cacheprovider --timeout=900 --continue-on-collection-errors",
        "source_commits": [],
        "add_only": True,
    },
    "engines": [
        {
            "name": "hsa",
            "path": "/verif/hsa",
            "serves_properties": [c["property_id"] for c in checks],
            "kind_free_text": "repository-specific static analyzer on Python ast: symbol/import resolution, union/dispatch extraction, structural patterns with metavariables, "
            "canonical-form normalisation (canon.py) and alpha-normalisation against the confirmed tree, value provenance, propositional path-condition reasoning, reaching definitions, "
            "affine normal forms, statement CFG with exceptional edges + path-sensitive dataflow, finite decision-table extraction, PDK table evaluator",
        }
    ],
    "checks": checks,
    "not_applicable": not_app,
    "notes": "All checks: exit 0 = every obligation holds or is a listed known finding (KNOWN-FINDING lines); exit 1 = unlisted violation (VIOLATION lines); "
    "exit 2 = ANALYSIS-ERROR (could not decide; never a silent pass). thorough = quick + the checker's own self-test for that property: textual breaking variants and benign twins (hsa/variants.py), the confirmed seeded changes of /verif/seeded (must be reported) "
    "and the behaviour-preserving refactorings of /verif/benign (must leave the verdict unchanged), each re-analysed on a scratch mirror under a temp dir (nothing is executed).",
}
(VERIF / "MANIFEST.json").write_text(json.dumps(manifest, indent=1))
print(f"{len(checks)} checks claimed, {len(not_app)} not applicable")
