#!/venv/bin/python
"""Confirm a seeded change and run the checks against it.

usage: eval_seed.py <patch.diff> <demo.py> [--props C01,C02] [--keep]

1. fresh scratch worktree of /repo HEAD under /tmp (removed afterwards)
2. demo on the clean tree must pass (exit 0)
3. apply the patch; the test suite must stay green (224 passed); the demo must fail
4. run every (or the given) quick check with --root <scratch> and report which fire
Nothing under /repo is modified.
"""
import json
import os
import subprocess
import sys
import tempfile
from pathlib import Path

PY = "/venv/bin/python"


def sh(cmd, cwd=None, env=None, timeout=900):
    p = subprocess.run(cmd, shell=True, cwd=cwd, env=env, capture_output=True, text=True, timeout=timeout)
    return p.returncode, (p.stdout + p.stderr)


def main():
    patch, demo = Path(sys.argv[1]).resolve(), Path(sys.argv[2]).resolve()
    props = None
    if "--props" in sys.argv:
        props = sys.argv[sys.argv.index("--props") + 1].split(",")
    props = props or [f"C{n:02d}" for n in range(1, 20)]
    wt = Path(tempfile.mkdtemp(prefix="evalseed-"))
    os.rmdir(wt)
    out = {"patch": str(patch), "demo": str(demo)}
    try:
        rc, o = sh(f"git -C /repo worktree add -q --detach {wt} HEAD")
        assert rc == 0, o
        # demos written by the seeding agents refer to their own worktree path; rewrite to ours
        text = demo.read_text()
        import re

        text2 = re.sub(r"/tmp/seed_C\d\d(?!_out)", str(wt), text)
        d2 = wt / "_demo.py"
        d2.write_text(text2)
        env = dict(os.environ, PYTHONDONTWRITEBYTECODE="1")
        rc, o = sh(f"{PY} {d2}", cwd=wt, env=env)
        out["demo_clean_rc"] = rc
        out["demo_clean_tail"] = o.strip().splitlines()[-2:]
        rc, o = sh(f"git apply {patch}", cwd=wt)
        out["apply_rc"] = rc
        if rc != 0:
            out["apply_err"] = o[-300:]
            print(json.dumps(out, indent=1))
            return 1
        rc, o = sh(f"{PY} -m pytest -q -p no:cacheprovider -x", cwd=wt, env=env)
        out["suite"] = [l for l in o.strip().splitlines() if "passed" in l or "failed" in l][-1:]
        rc, o = sh(f"{PY} {d2}", cwd=wt, env=env)
        out["demo_patched_rc"] = rc
        out["demo_patched_tail"] = o.strip().splitlines()[-2:]
        d2.unlink()
        fired = {}
        env2 = dict(env, HSA_EVIDENCE_DIR=str(wt / "_evidence"))
        for p in props:
            rc, o = sh(f"{PY} -m hsa.check --prop {p} --root {wt}", cwd="/verif", env=env2)
            if rc != 0:
                rules = sorted({l.strip().split()[1] for l in o.splitlines() if l.strip().startswith("rule ")})
                fired[p] = {"rc": rc, "rules": rules, "msg": [l for l in o.splitlines() if "ANALYSIS-ERROR" in l][:1]}
        out["fired"] = fired
        print(json.dumps(out, indent=1))
        return 0
    finally:
        sh(f"git -C /repo worktree remove --force {wt}")
        sh("git -C /repo worktree prune")


if __name__ == "__main__":
    sys.exit(main())
