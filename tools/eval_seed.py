#!/venv/bin/python
"""Confirm a seeded change and run the checks against it.

usage: eval_seed.py <patch.diff> <demo.py> [--props C01,C02] [--keep]

1. fresh scratch worktree of /repo HEAD under /tmp (removed afterwards)
2. demo on the clean tree must pass (exit 0)
3. apply the patch; the test suite must stay green (224 passed); the demo must fail
4. run every (or the given) quick check with --root <scratch> and report which fire
Nothing under /repo is modified.
"""
import json
import os
import subprocess
import sys
import tempfile
from pathlib import Path

PY = "/venv/bin/python"


def sh(cmd, cwd=None, env=None, timeout=900):
    p = subprocess.run(cmd, shell=True, cwd=cwd, env=env, capture_output=True, text=True, timeout=timeout)
    return p.returncode, (p.stdout + p.stderr)


def main():
    patch, demo = Path(sys.argv[1]).resolve(), Path(sys.argv[2]).resolve()
    props = None
    if "--props" in sys.argv:
        props = sys.argv[sys.argv.index("--props") + 1].split(",")
    props = props or [f"C{n:02d}" for n in range(1, 20)]
    wt = Path(tempfile.mkdtemp(prefix="evalseed-"))
    os.rmdir(wt)
    out = {"patch": str(patch), "demo": str(demo)}
    try:
        rc, o = sh(f"git -C /repo worktree add -q --detach {wt} HEAD")
        assert rc == 0, o
        # demos written by the seeding agents refer to their own worktree path; rewrite to ours
        text = demo.read_text()
        import re

        text2 = re.sub(r"/tmp/(?:seed|s2|s3|s4)_C\d\d(?!_out)", str(wt), text)
        d2 = wt / "_demo.py"
        d2.write_text(text2)
        env = dict(os.environ, PYTHONDONTWRITEBYTECODE="1")
        rc, o = sh(f"{PY} {d2}", cwd=wt, env=env)
        out["demo_clean_rc"] = rc
        out["demo_clean_tail"] = o.strip().splitlines()[-2:]
        rc, o = sh(f"git apply {patch}", cwd=wt)
        out["apply_rc"] = rc
        if rc != 0:
            out["apply_err"] = o[-300:]
            print(json.dumps(out, indent=1))
            return 1
        rc, o = sh(f"{PY} -m pytest -q -p no:cacheprovider -x", cwd=wt, env=env)
        out["suite"] = [l for l in o.strip().splitlines() if "passed" in l or "failed" in l][-1:]
        rc, o = sh(f"{PY} {d2}", cwd=wt, env=env)
        out["demo_patched_rc"] = rc
        out["demo_patched_tail"] = o.strip().splitlines()[-2:]
        d2.unlink()
        fired = {}
        env2 = dict(env, HSA_EVIDENCE_DIR=str(wt / "_evidence"))
        for p in props:
            rc, o = sh(f"{PY} -m hsa.check --prop {p} --root {wt}", cwd="/verif", env=env2)
            if rc != 0:
                rules = sorted({l.strip().split()[1] for l in o.splitlines() if l.strip().startswith("rule ")})
                fired[p] = {"rc": rc, "rules": rules, "msg": [l for l in o.splitlines() if "ANALYSIS-ERROR" in l][:1]}
        out["fired"] = fired
        confirmed = out.get("demo_clean_rc") == 0 and out.get("demo_patched_rc", 0) != 0 and out["suite"] and " failed" not in out["suite"][0].replace("xfailed", "") and "224 passed" in out["suite"][0]
        out["confirmed"] = bool(confirmed)
        if "--keep" in sys.argv and confirmed:
            name = sys.argv[sys.argv.index("--keep") + 1]
            prop = sys.argv[sys.argv.index("--target") + 1]
            dest = Path("/verif/seeded") / name
            dest.mkdir(parents=True, exist_ok=True)
            (dest / "patch.diff").write_text(patch.read_text())
            (dest / "demo.py").write_text(demo.read_text())
            notes = patch.with_name(patch.name.replace("patch_", "notes_").replace(".diff", ".md"))
            meta = {
                "property": prop,
                "origin": "independent sub-agent given only the property text and a scratch worktree (nothing from /verif)",
                "needs_to_manifest": notes.read_text() if notes.exists() else "",
                "confirmed_by": {
                    "suite_with_change": out["suite"][0],
                    "demo_on_clean_tree": "exit 0",
                    "demo_with_change": f"exit {out['demo_patched_rc']}: " + " | ".join(out["demo_patched_tail"])[:300],
                    "how": "tools/eval_seed.py: fresh scratch worktree of /repo HEAD, demo, git apply, full suite, demo, quick checks with --root <scratch>",
                },
                "detected_by": {p: v["rules"] or v["msg"] for p, v in fired.items()},
                "detected": bool(fired.get(prop, {}).get("rc") == 1),
            }
            (dest / "meta.json").write_text(json.dumps(meta, indent=1))
        print(json.dumps({k: out[k] for k in ("confirmed", "suite", "demo_clean_rc", "demo_patched_rc", "fired") if k in out}))
        return 0
    finally:
        sh(f"git -C /repo worktree remove --force {wt}")
        sh("git -C /repo worktree prune")


if __name__ == "__main__":
    sys.exit(main())
