#!/bin/bash
# evaluates /tmp/s2_<id>_out/patch_k.diff (round 2), keeps confirmed ones under /verif/seeded/<id>-<k+3>
one() {
  id=$1; k=$2
  p=/tmp/s2_${id}_out/patch_$k.diff; d=/tmp/s2_${id}_out/demo_$k.py
  [ -f "$p" ] && [ -f "$d" ] || exit 0
  n=$((k+3))
  echo "$id-$n: $(/venv/bin/python /verif/tools/eval_seed.py $p $d --target $id --keep $id-$n 2>&1 | grep -v WARNING | tail -1 | cut -c1-400)"
}
export -f one
for id in "$@"; do for k in 1 2 3; do echo "$id $k"; done; done | xargs -P 6 -L 1 bash -c 'one $0 $1'
