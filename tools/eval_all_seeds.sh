#!/bin/bash
# usage: eval_all_seeds.sh C17 C14 ...   (evaluates /tmp/seed_<id>_out/patch_k.diff, keeps confirmed ones under /verif/seeded/<id>-k)
for id in "$@"; do
  for k in 1 2 3; do
    p=/tmp/seed_${id}_out/patch_$k.diff; d=/tmp/seed_${id}_out/demo_$k.py
    [ -f "$p" ] && [ -f "$d" ] || continue
    echo -n "$id-$k: "
    /venv/bin/python /verif/tools/eval_seed.py $p $d --target $id --keep $id-$k 2>&1 | grep -v WARNING | tail -1
  done
done
