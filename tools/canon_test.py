import ast, sys
sys.path.insert(0, "/verif")
from hsa import canon
def c(src, ref_funcs=None, ref_consts=None):
    t = ast.parse(src)
    st = canon.canonicalise(t, ref_funcs, ref_consts)
    return ast.unparse(t), st
def same(a, b, **kw):
    ca, cb = c(a, **kw)[0], c(b, **kw)[0]
    # compare the first function only
    def getf(src):
        for n in ast.walk(ast.parse(src)):
            if isinstance(n, ast.FunctionDef) and n.name == "f":
                return ast.unparse(n)
    import re as _re
    fa = _re.sub(r"__h\d+", "d", getf(ca)); fb = getf(cb)
    if fa != fb:
        print("DIFFER:\n--- A\n" + fa + "\n--- B\n" + fb + "\n")
    else:
        print("same")
# guard vs elif
same("""
def f(x):
    if isinstance(x, A):
        return 1
    if isinstance(x, B):
        return 2
    raise TypeError
""", """
def f(x):
    if isinstance(x, A):
        return 1
    elif isinstance(x, B):
        return 2
    else:
        raise TypeError
""")
# flipped
same("""
def f(x):
    if x is not None:
        a()
    else:
        b()
""", """
def f(x):
    if x is None:
        b()
    else:
        a()
""")
# guard at tail
same("""
def f(x):
    if x is None:
        return
    a(x)
    b(x)
""", """
def f(x):
    if x is not None:
        a(x)
        b(x)
""")
# ternary
same("""
def f(x, flip):
    s = flip if not x.flipped else not flip
    return s
""", """
def f(x, flip):
    if x.flipped:
        s = not flip
    else:
        s = flip
    return s
""")
# loop -> comprehension
same("""
def f(xs):
    out = []
    for x in xs:
        if x.ok:
            out.append(g(x))
    return out
""", """
def f(xs):
    return [g(x) for x in xs if x.ok]
""")
same("""
def f(xs):
    d = {}
    for x in xs:
        if x in bad:
            continue
        d[x.name] = x
    use(**d)
""", """
def f(xs):
    d = {x.name: x for x in xs if x not in bad}
    use(**d)
""")
# temporaries
same("""
def f(self, m):
    cache = self.CACHE
    if m in cache.pending:
        raise E
    cache.pending.add(m)
""", """
def f(self, m):
    if m in self.CACHE.pending:
        raise E
    self.CACHE.pending.add(m)
""")
same("""
def f(self, m):
    msg = f"bad {m}"
    self.fail(msg)
""", """
def f(self, m):
    self.fail(f"bad {m}")
""")
# extract helper
same("""
def _helper(module, val):
    if isinstance(val, A):
        return module.a
    if isinstance(val, B):
        return module.b
    _attr_type_error(val)
def f(module, val):
    ctr = _helper(module, val)
    ctr[val.name] = val
""", """
def f(module, val):
    if isinstance(val, A):
        ctr = module.a
    elif isinstance(val, B):
        ctr = module.b
    else:
        _attr_type_error(val)
    ctr[val.name] = val
""", ref_funcs={"f"})
same("""
class K:
    def f(self, m):
        self.pending.add(m)
        try:
            self._contents(m)
        except Exception:
            raise
    def _contents(self, module):
        for i in module.instances:
            self.visit(i)
        for a in module.arrays:
            self.visit(a)
""", """
class K:
    def f(self, m):
        self.pending.add(m)
        try:
            for i in m.instances:
                self.visit(i)
            for a in m.arrays:
                self.visit(a)
        except Exception:
            raise
""", ref_funcs={"K.f"})
same("""
_TABLE = {"a": 1}
def f(x):
    return _TABLE[x]
""", """
def f(x):
    return {"a": 1}[x]
""", ref_funcs={"f"}, ref_consts=set())
same("""
def f(a, b):
    return isinstance(a, X) or isinstance(a, Y)
""", """
def f(a, b):
    return isinstance(a, (X, Y))
""")
same("""
def f(step):
    if step >= 0:
        a()
    else:
        b()
""", """
def f(step):
    if step < 0:
        b()
    else:
        a()
""")
same("""
def f(xs):
    return sum([w(x) for x in xs])
""", """
def f(xs):
    t = 0
    for x in xs:
        t += w(x)
    return t
""")
same("""
def f(self, an):
    dispatch = ((A, "a", self.xa), (B, "b", self.xb))
    for T, fld, ex in dispatch:
        if isinstance(an, T):
            return K(**{fld: ex(an)})
    raise TypeError
""", """
def f(self, an):
    if isinstance(an, A):
        return K(a=self.xa(an))
    elif isinstance(an, B):
        return K(b=self.xb(an))
    else:
        raise TypeError
""")
same("""
def f(m, name):
    for ns in (m.ports, m.signals):
        found = ns.get(name)
        if found is not None:
            return found
    raise ValueError
""", """
def f(m, name):
    port = m.ports.get(name, None)
    if port is not None:
        return port
    sig = m.signals.get(name, None)
    if sig is not None:
        return sig
    raise ValueError
""")
same("""
def f(m, pair):
    par = [p for p in m.ports.values() if p not in pair]
    d = {p.name: p for p in par}
    use(**d)
""", """
def f(m, pair):
    d = {}
    for p in m.ports.values():
        if p in pair:
            continue
        d[p.name] = p
    use(**d)
""")
same("""
_T = ((A, lambda b: b.a), (B, lambda b: b.b))
def f(bundle, val):
    for T, acc in _T:
        if isinstance(val, T):
            ctr = acc(bundle)
            break
    else:
        raise TypeError
    ctr[val.name] = val
""", """
def f(bundle, val):
    if isinstance(val, A):
        ctr = bundle.a
    elif isinstance(val, B):
        ctr = bundle.b
    else:
        raise TypeError
    ctr[val.name] = val
""", ref_funcs={"f"}, ref_consts=set())
same("""
_N = (("v1", "a"), ("td", "delay"))
def f(params):
    return {k: getattr(params, v) for k, v in _N}
""", """
def f(params):
    return dict(v1=params.a, td=params.delay)
""", ref_funcs={"f"}, ref_consts=set())
same("""
_V = ((M, "visit_m"), (G, "visit_g"))
def f(self, x):
    for T, name in _V:
        if isinstance(x, T):
            return getattr(self, name)(x)
    raise TypeError
""", """
def f(self, x):
    if isinstance(x, M):
        return self.visit_m(x)
    if isinstance(x, G):
        return self.visit_g(x)
    raise TypeError
""", ref_funcs={"f"}, ref_consts=set())
same("""
def _sp(module):
    for s in module.signals.values():
        yield s
    for p in module.ports.values():
        yield p
def f(module, pmod):
    for sig in _sp(module):
        pmod.signals.append(mk(sig))
""", """
def f(module, pmod):
    for s in module.signals.values():
        sig = s
        pmod.signals.append(mk(sig))
    for p in module.ports.values():
        sig = p
        pmod.signals.append(mk(sig))
""", ref_funcs={"f"}, ref_consts=set())
same("""
def _offs(parts):
    off = 0
    for part in parts:
        yield off, part
        off += width(part)
def f(sl):
    for idx, part in _offs(sl.parent.parts):
        if sl.bot < width(part) + idx:
            return g(part[sl.bot - idx])
    raise RuntimeError
""", """
def f(sl):
    off = 0
    for part in sl.parent.parts:
        idx, part = off, part
        if sl.bot < width(part) + idx:
            return g(part[sl.bot - idx])
        off += width(part)
    raise RuntimeError
""", ref_funcs={"f"}, ref_consts=set())
same("""
class K:
    def _dir(self, b, s, flip):
        if s.vis == PORT:
            return s.direction.flipped() if flip else s.direction
        if b.role is None:
            return NONE
        return OTHER
    def f(self, b, s, flip, is_port):
        if is_port:
            s.vis, s.direction = (PORT, self._dir(b, s, flip))
        else:
            s.vis, s.direction = (INTERNAL, NONE)
""", """
class K:
    def f(self, b, s, flip, is_port):
        if is_port:
            if s.vis == PORT:
                if flip:
                    d = s.direction.flipped()
                else:
                    d = s.direction
            elif b.role is None:
                d = NONE
            else:
                d = OTHER
            s.vis = PORT
            s.direction = d
        else:
            s.vis = INTERNAL
            s.direction = NONE
""", ref_funcs={"K.f"}, ref_consts=set())
# capture: helper local clashes with a caller variable that is live after the call
same("""
def _norm(v):
    x = v.strip()
    x = x.lower()
    return x
def f(a, b):
    x = g(a)
    y = _norm(b)
    return x + y
""", """
def f(a, b):
    x = g(a)
    return x + b.strip().lower()
""", ref_funcs={"f"}, ref_consts=set())
# flags
same("""
def _op(fn, me, other, reflected=False):
    if isinstance(other, P):
        rescale = True
    elif isinstance(other, (int, str)):
        other = P.new(other)
        rescale = False
    else:
        return NotImplemented
    if reflected:
        result = fn(lhs=other, rhs=me)
    else:
        result = fn(lhs=me, rhs=other)
    return result.scale() if rescale else result
def f(self, other):
    return _op(_sub, self, other, reflected=True)
""", """
def f(self, other):
    if isinstance(other, P):
        return _sub(lhs=other, rhs=self).scale()
    elif isinstance(other, (int, str)):
        return _sub(lhs=P.new(other), rhs=self)
    return NotImplemented
""", ref_funcs={"f"}, ref_consts=set())
same("""
def _has(group):
    for m in group:
        if isinstance(m, N):
            return True
    return False
def f(self, group):
    if _has(group):
        return self.a(group)
    return self.b(group)
""", """
def f(self, group):
    if any([isinstance(n, N) for n in group]):
        return self.a(group)
    return self.b(group)
""", ref_funcs={"f"}, ref_consts=set())
# table dispatch
same("""
def f(p):
    t = p.which("value")
    imp = {"a": int, "b": float, "c": lambda v: conv(v)}.get(t, None)
    if imp is None:
        raise ValueError(t)
    return imp(getattr(p, t))
""", """
def f(p):
    t = p.which("value")
    if t == "a":
        return int(p.a)
    if t == "b":
        return float(p.b)
    if t == "c":
        return conv(p.c)
    raise ValueError(t)
""", ref_funcs={"f"}, ref_consts=set())
# sinking
same("""
def f(self, attr):
    if isinstance(attr, O):
        section, exported = (self.inp.opts, export_options(attr))
    elif is_an(attr):
        section, exported = (self.inp.an, self.export_analysis(attr))
    else:
        raise TypeError
    section.append(exported)
""", """
def f(self, attr):
    if isinstance(attr, O):
        self.inp.opts.append(export_options(attr))
    elif is_an(attr):
        self.inp.an.append(self.export_analysis(attr))
    else:
        raise TypeError
""", ref_funcs={"f"}, ref_consts=set())
