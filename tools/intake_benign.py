#!/venv/bin/python
"""Take behaviour-preserving refactorings produced by independent sub-agents into /verif/benign.

usage: intake_benign.py /tmp/rf_C01_out [/tmp/rf_C02_out ...]

For each patch_<k>.diff: export /repo HEAD into a scratch directory, apply, run the full test suite
there (must be 224 passed, nothing failed); keep patch + notes + meta.json as /verif/benign/<id>-r<k>/.
"""
import json, os, re, shutil, subprocess, sys, tempfile
from concurrent.futures import ThreadPoolExecutor
from pathlib import Path

PY = "/venv/bin/python"


def sh(cmd, cwd=None, env=None):
    p = subprocess.run(cmd, shell=True, cwd=cwd, env=env, capture_output=True, text=True, timeout=1800)
    return p.returncode, p.stdout + p.stderr


def one(args):
    outdir, k, base = args
    prefix = "g" if "/rg_" in str(outdir) else ("k" if "/rk_" in str(outdir) else "r")  # second / third batch of refactorings: <id>-g<k>, <id>-k<k>
    pid = json.loads((outdir / "property.json").read_text())["id"]
    patch = outdir / f"patch_{k}.diff"
    name = f"{pid}-{prefix}{k}"
    d = base / name
    d.mkdir()
    sh(f"git -C /repo archive HEAD | tar -x -C {d}")
    rc, o = sh(f"git apply --unsafe-paths --directory={d} {patch}", cwd="/")
    if rc != 0:
        return name, f"apply failed: {o[-200:]}"
    rc, o = sh(f"{PY} -m pytest -q -p no:cacheprovider", cwd=d, env=dict(os.environ, PYTHONDONTWRITEBYTECODE="1"))
    tail = [l for l in o.strip().splitlines() if "passed" in l or "failed" in l][-1:]
    ok = bool(tail) and "224 passed" in tail[0] and " failed" not in tail[0].replace("xfailed", "")
    shutil.rmtree(d, ignore_errors=True)
    if not ok:
        return name, f"suite not green: {tail}"
    dest = Path("/verif/benign") / name
    dest.mkdir(parents=True, exist_ok=True)
    (dest / "patch.diff").write_text(patch.read_text())
    notes = outdir / f"notes_{k}.md"
    meta = {"property": pid, "origin": "independent sub-agent given only the property text and a scratch worktree, asked for behaviour-preserving refactorings of the code implementing the property",
            "notes": notes.read_text() if notes.exists() else "", "suite_with_change": tail[0]}
    (dest / "meta.json").write_text(json.dumps(meta, indent=1))
    return name, "kept"


def main():
    base = Path(tempfile.mkdtemp(prefix="intake-"))
    jobs = []
    for a in sys.argv[1:]:
        outdir = Path(a)
        for p in sorted(outdir.glob("patch_*.diff")):
            jobs.append((outdir, re.search(r"patch_(\w+)\.diff", p.name).group(1), base))
    try:
        with ThreadPoolExecutor(8) as ex:
            for name, res in ex.map(one, jobs):
                print(name, res)
    finally:
        shutil.rmtree(base, ignore_errors=True)


if __name__ == "__main__":
    main()
