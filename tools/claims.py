# Per-property claims; exec'd by gen_manifest.py (claim/na are defined there).
claim("C01", "ast pattern rules + affine normal forms + union/dispatch extraction + reader-side fact extraction from the installed vlsirtools sources",
      "port-reference source kinds cover every connectable; exported slice/concat index and part-order conventions agree with the installed netlisters and with the importer; "
      "array per-element slices form the partition [k*w,(k+1)*w); bundle / instance-bundle reconnection is member-name faithful; no-connect replacement is private (also per array element); "
      "PortRef/BundleRef eq/hash well-formed; nested slice/concat resolution index maps; connection state only written through the owner API; per-element loops total; copies do not alias back-reference state.",
      "that the composition of the seven passes yields the designer's net partition for every design (heap-shaped, data dependent).",
      "DESIGN.md §4 C01")
claim("C02", "default-pass-list liveness analysis (per-class done-set), call-graph effect analysis, dispatch exhaustiveness, guard inventory (one failing guard per fault class), affine bounds obligations, freeze-mark position against memoised checks (one known finding)",
      "every checking pass of the default list is live (own done-set) and a live ConnTypes and Orphanage run after the last rewriting pass; checker dispatches are exhaustive; "
      "a failing guard exists for each fault class of the statement (width mismatch, missing/extra connection, non-existent port/member in both directions, ownership, shared no-connect, circular instantiation, unnamed/clashing module, exporter leftovers); index bounds/emptiness; no dead guards.",
      "sufficiency of the guards' predicates for faults hidden behind arbitrary nesting of slices, references and bundles.",
      "DESIGN.md §4 C02")
claim("C03", "affine normal forms and branch-wise index-map comparison; delegation-to-Python recognition (slice.indices / len(range)); union/decorator agreement; abstract interpretation of construction-time range tests over the order types of the bounds (rules/slicedomain.py); reaching definitions of rebound parameters",
      "two-sided integer bounds and normalisation; slice normalisation delegated to slice.indices(parent width) with width = len(range(...)), emptiness and zero step rejected, bot/top per sign of step; "
      "one memoised SliceInner; nested-slice/concat index maps incl. stride and direction; sliceable kinds = the five of the statement and width() covers them; width(Concat) = sum; parent width through the helper defined for every kind.",
      "the numerical statement over all (w, start, stop, step) and nesting depths (that is enumeration against list slicing, i.e. execution; a dynamic witness is kept under witness/ but is not a check).",
      "DESIGN.md §4 C03")
claim("C04", "statement CFG + forward dataflow (fact pairing on every path), repo-wide writer scan, call-graph reachability for snapshot iteration",
      "on every normal path through connect/replace/disconnect conns and the connectable's back-reference set are updated together with one per-port reference; nobody else writes either side; "
      "one PortRef per (instance, port); loops that rewrite the set they walk iterate a snapshot; call/assignment/array forms funnel into connect.",
      "absence of every electrical trace for every operation history (the clauses are the invariant the passes rely on, not the end-to-end statement).",
      "DESIGN.md §4 C04")
claim("C05", "reaching-definitions on the CFG (every definition of an inserted name must be a flatname(avoid=<that module>.namespace) result), dominance of the success test in flatname, writer scan",
      "every Module.add in hdl21/elab inserts under a name that is fresh for that module; flatname returns only names it has checked; passes do not write module containers directly (except the paired removal of the object being flattened).",
      "the second half of the property for fresh names (connections keep referring to their object) is object identity at run time, see C01.",
      "DESIGN.md §4 C05")
claim("C06", "statement-order / dominance checks in the exporter, dispatch exhaustiveness, table agreement with the installed reader (vlsirtools/primitives.py), module-state scan",
      "definition-before-use ordering, memoisation and name-clash guard, signals ⊇ ports from the same objects, disjoint per-kind views, exhaustive instance-target dispatch with reader-agreeing ideal-primitive ports/parameters, one Connection per conns entry, per-call exporter state.",
      "widths/exactly-once connection of every port for every design (consequences of C02's checks being live and sufficient); acceptance by from_proto and the netlisters as a whole.",
      "DESIGN.md §4 C06")
claim("C07", "finite decision-table extraction (io_for_checking over 4 valuations), dominance on the CFG (snapshot before mutation, freeze guard before stores), writer scans",
      "pre-flattening snapshot is taken once, before any mutation, by its single writer; bundled-vs-flattened io choice table; freeze guard dominates every container store and has exactly two writers; id()-keyed global caches pin their key objects; global caches have one owning module.",
      "equality of packages over all call sequences and groupings (interleavings of eight class-level caches, a global flattening cache and per-module snapshots).",
      "DESIGN.md §4 C07")
claim("C08", "statement CFG with exceptional edges + path-sensitive forward dataflow (pairing/typestate)",
      "pending sets are released on every exit (normal and exceptional) of a module visit and of generator.run; `done` is stored only after the body returned normally; "
      "a failed module visit is recorded per pass and the record is consulted and re-raised on entry, before the pass body can run again.",
      "that every unrelated design elaborates as in a fresh process (needs a frame condition / alias analysis over shared sub-modules); fault positions inside third-party code.",
      "DESIGN.md §4 C08")
claim("C09", "CFG dataflow (lookup-before-body, store-after-body with correlated enable_cache guards), f-string/format analysis of the readable name, taint scan of name producers",
      "cache lookup/store discipline and key eq/hash agreement; readable names render strings unambiguously; hashed names are a whole hashlib digest of JSON text with no address/salted-hash input; a generator does not rename a module another call produced; length limit.",
      "collision freedom of the hashed naming branch over all parameter shapes (md5 and the JSON encoder on nested values).",
      "DESIGN.md §4 C09")
claim("C10", "finite-domain evaluation: decision table over 6 boolean atoms (all specified valuations), enum-function tables, XOR truth table of the flip step",
      "PortDir.flipped table; direction/visibility decision table of the flattening helper against the table written from the statement; flip parity step and start; flattened names (leaf key, sub-scope prefix, '_' separators, final name); both sides agree on members; copies are independent.",
      "depth-3 / fan-out-3 enumeration as such (the recursion is checked by its step, not unrolled).",
      "DESIGN.md §4 C10")
claim("C11", "typed field-access extraction per protobuf message (exporter writes ⊆ importer reads), inverse-table comparison, oneof-arm coverage, loop-direction analysis",
      "prefix / port-direction / ideal-primitive / pulse-parameter tables are mutually inverse; slice top and concat order mirror the exporter; every message field and oneof arm the exporter writes is read by the importer; import order is package order.",
      "to_proto(from_proto(P)) == P for all P.",
      "DESIGN.md §4 C11")
claim("C12", "unordered-to-ordered effect analysis: iterations over set-typed attributes whose body reaches order-sensitive effects through the call graph; taint scan of name producers",
      "every iteration over an address/str-hashed set either has only commutative per-element effects or imposes a name-based order first; sort keys and generated names never derive from id()/hash()/repr.",
      "byte identity of whole packages and netlists (also depends on protobuf and vlsirtools); order propagated through local accumulators is outside the rule by design.",
      "DESIGN.md §4 C12")
claim("C13", "dispatch exhaustiveness + arm-to-field table, float-detour taint scan on the value path, table agreement with the installed reader",
      "every ToVlsirParam member has an arm with the right ParamValue field; None skipped; prefix table total and name preserving; no float()/Decimal(non-string) on the value paths; ideal primitives agree with vlsirtools on port order and required parameter names; to_scalar's shape.",
      "digit exactness over all Decimals inside pydantic/decimal (library behaviour).",
      "DESIGN.md §4 C13")
claim("C14", "object-protocol rules: eq/hash through one normalisation, dunder return shapes, callee scan for raising rounding operations, sibling agreement of the six comparison operators",
      "hash uses the exact value that eq compares; int()/float() are single conversions of the exact Decimal; the six comparisons are `three-way(self, other) <op> 0` over one helper with the right operator each and reach no round()/quantize(); shapes of neg/abs/add/subtract/scale.",
      "exactness of + − × neg abs scale for all prefix pairs and 25-digit mantissas (decimal context precision, log10-based prefix choice): arithmetic, not shape.",
      "DESIGN.md §4 C14")
claim("C15", "constant-folding table evaluator over the PDK packages' declarative code (all 152 device-table entries, 3148 logic cells, exhaustive), walker effect analysis, selection/defaults/cache rules",
      "walkers write only Instance.of; port compatibility of every (table entry, routed primitive) pair; selector/key shape agreement and descriptive miss errors; defaults-table and paramtype-dispatch completeness; cache read/write agreement; registry API; logic cells unique and well-formed; name templates.",
      "sizing arithmetic (scale_param, diode area/perimeter), netlisting of compiled designs, compile-twice equality beyond the pass-through argument. 66 port-incompatible pairs are genuine and listed as known findings.",
      "DESIGN.md §4 C15")
claim("C16", "sibling agreement of the three leaf tests, guard inventory, uniqueness-by-construction of ':'-joined names (separator guards), lookup-order check",
      "leaf kinds agree; unsupported constructs rejected; every ':'-joined component is checked free of ':'; ports copied unchanged and lower-level nets internal; child ports resolved through the parent's map first; every leaf yielded and reconnected by name.",
      "equality of leaf-level net partitions for all hierarchies.",
      "DESIGN.md §4 C16")
claim("C17", "dispatch exhaustiveness with arm-to-field tables, isinstance-argument validity, attribute existence on narrowed receivers (classes with __getattr__ magic), data-class field coverage",
      "every analysis/control/sweep/save-target variant has an arm exporting into the right SimInput field; no subscripted generics in isinstance; narrowed receivers only read attributes that exist; one pass in order; distinct generated names; testbench check before export; numeric fields through one float conversion of the right attribute; every data-class field is read.",
      "value faithfulness of every exported field for all Sim objects.",
      "DESIGN.md §4 C17")
claim("C18", "reserved-name completeness from the class attribute tables, sibling agreement Module/Bundle, eviction and ordering checks in _add, dead-guard analysis",
      "re-used names are evicted from every other per-kind container; reserved names cover every public class attribute; Module and Bundle agree on setattr/getattr/delattr/subclassing/freeze/decorator path; parent link, port view, validation before store; freeze guards have writers.",
      "coherence after arbitrary histories beyond what these local invariants imply (the induction over setattr/add/get is our argument, not a machine proof).",
      "DESIGN.md §4 C18")
claim("C19", "dataflow/pattern rules on the generator bodies + the array-partition obligation of C01.3",
      "Series: nser units, private net of width nser-1, offset concatenations (A,i)/(i,B) around the same net, parallel ports by name, corner cases; MosStack = Series over (d, s); Wrapper clones io(m) and wires same-named ports; element k of an array gets bits [k*w,(k+1)*w).",
      "the exported net partition for every n and unit.",
      "DESIGN.md §4 C19")
