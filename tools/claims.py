# Per-property claims; exec'd by gen_manifest.py (claim/na are defined there).
claim("C01", "ast pattern rules + affine normal forms + union/dispatch extraction + reader-side fact extraction (vlsirtools sources)",
      "port-reference source kinds cover every connectable; exported slice/concat index and part-order conventions agree with the installed netlisters and with the importer; "
      "array per-element slices form the partition [k*w,(k+1)*w); bundle / instance-bundle reconnection is member-name faithful; no-connect replacement is private (also per array element); "
      "PortRef/BundleRef eq/hash well-formed; nested slice/concat resolution index maps; connection state only written through the owner API; per-element loops total; copies do not alias back-reference state.",
      "that the composition of the seven passes yields the designer's net partition for every design (heap-shaped, data dependent).",
      "DESIGN.md §4 C01")
claim("C08", "statement CFG with exceptional edges + path-sensitive forward dataflow (pairing/typestate)",
      "pending sets are released on every exit (normal and exceptional) of a module visit and of generator.run; `done` is stored only after the body returned normally; "
      "a failed module visit is recorded per pass and the record is consulted and re-raised on entry, before the pass body can run again.",
      "that every unrelated design elaborates as in a fresh process (needs a frame condition / alias analysis over shared sub-modules); fault positions inside third-party code.",
      "DESIGN.md §4 C08")
