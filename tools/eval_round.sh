#!/bin/bash
# usage: eval_round.sh <prefix e.g. s3> <offset e.g. 6> C01 C02 ...
# evaluates /tmp/<prefix>_<id>_out/patch_k.diff, keeps confirmed ones under /verif/seeded/<id>-<k+offset>
one() {
  pre=$1; off=$2; id=$3; k=$4
  p=/tmp/${pre}_${id}_out/patch_$k.diff; d=/tmp/${pre}_${id}_out/demo_$k.py
  [ -f "$p" ] && [ -f "$d" ] || exit 0
  n=$((k+off))
  echo "$id-$n: $(/venv/bin/python /verif/tools/eval_seed.py $p $d --target $id --keep $id-$n 2>&1 | grep -v WARNING | tail -1 | cut -c1-400)"
}
export -f one
pre=$1; off=$2; shift 2
for id in "$@"; do for k in 1 2 3; do echo "$pre $off $id $k"; done; done | xargs -P 6 -L 1 bash -c 'one $0 $1 $2 $3'
