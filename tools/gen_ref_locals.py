#!/venv/bin/python
"""Regenerate hsa/ref_locals.json (local-variable names per function shape) from /repo's current tree.
Run after a legitimate change of /repo (e.g. a fix: commit)."""
import ast, json, sys
from pathlib import Path
sys.path.insert(0, str(Path(__file__).resolve().parent.parent))
from hsa import alpha, canon
root = Path("/repo")
files = {}
for sub in ("hdl21", "pdks/Sky130/sky130_hdl21", "pdks/Gf180/gf180_hdl21", "pdks/Asap7/asap7_hdl21"):
    for p in sorted((root / sub).rglob("*.py")):
        rel = str(p.relative_to(root))
        if "/tests/" in rel or p.name.startswith("test_") or "digital_cells" in rel or "/scripts/" in rel:
            continue
        files[rel] = ast.parse(p.read_text())
        canon.canonicalise(files[rel], None, None)
ref = alpha.build_reference(files)
alpha.REF_FILE.write_text(json.dumps(ref, indent=0, sort_keys=True))
print(len(ref), "files,", sum(len(v) - 1 for v in ref.values()), "functions")
