#!/venv/bin/python
"""Mechanical, behaviour-preserving whole-tree rewrites of /repo, to probe the canonical form.

usage: mech_refactor.py <transform> <dest>     copies /repo (without .git) to <dest> and rewrites hdl21/**.py and the PDK
packages (never tests) with one transform:
  negate     every `if c: A else: B` (with a non-empty else that is not an elif chain head ... any) becomes `if not c: B else: A`
  rename     every function-local variable (not parameters, not names shared with nested functions) gets the suffix `_v`
  guards     `if c: A else: B` where A cannot fall through becomes `if c: A` followed by B (guard-clause style)
  loops      `x = [e for t in it if c]` / `{k: v for ..}` assigned to a plain name becomes an accumulation loop
The rewritten tree is valid Python (ast.unparse; comments are lost).  The caller runs the test suite on it
(must stay at 224 passed) and then the 19 checks with --root <dest>.
"""
import ast, shutil, sys, subprocess
from pathlib import Path

T, DEST = sys.argv[1], Path(sys.argv[2])


def terminates(body):
    if not body:
        return False
    last = body[-1]
    if isinstance(last, (ast.Return, ast.Raise, ast.Continue, ast.Break)):
        return True
    if isinstance(last, ast.If):
        return terminates(last.body) and terminates(last.orelse)
    return False


class Negate(ast.NodeTransformer):
    def visit_If(self, node):
        self.generic_visit(node)
        if node.orelse:
            t = node.test
            nt = t.operand if isinstance(t, ast.UnaryOp) and isinstance(t.op, ast.Not) else ast.UnaryOp(ast.Not(), t)
            return ast.copy_location(ast.If(nt, node.orelse, node.body), node)
        return node


class Guards(ast.NodeTransformer):
    def _block(self, body):
        out = []
        for st in body:
            if isinstance(st, ast.If) and st.orelse and terminates(st.body) and st is body[-1]:
                out.append(ast.copy_location(ast.If(st.test, st.body, []), st))
                out.extend(self._block(st.orelse))
            else:
                out.append(st)
        return out

    def visit_FunctionDef(self, node):
        self.generic_visit(node)
        node.body = self._block(node.body)
        return node


class Loops(ast.NodeTransformer):
    def _block(self, body):
        out = []
        for st in body:
            if isinstance(st, ast.Assign) and len(st.targets) == 1 and isinstance(st.targets[0], ast.Name) and isinstance(st.value, (ast.ListComp, ast.DictComp)) and len(st.value.generators) == 1 and not st.value.generators[0].is_async:
                nm = st.targets[0].id
                comp = st.value
                g = comp.generators[0]
                if any(isinstance(n, ast.Name) and n.id == nm for n in ast.walk(comp)):
                    out.append(st)
                    continue
                if isinstance(comp, ast.ListComp):
                    init = ast.List([], ast.Load())
                    put = ast.Expr(ast.Call(ast.Attribute(ast.Name(nm, ast.Load()), "append", ast.Load()), [comp.elt], []))
                else:
                    init = ast.Dict([], [])
                    put = ast.Assign([ast.Subscript(ast.Name(nm, ast.Load()), comp.key, ast.Store())], comp.value)
                inner = [put]
                for c in reversed(g.ifs):
                    inner = [ast.If(c, inner, [])]
                out.append(ast.copy_location(ast.Assign([ast.Name(nm, ast.Store())], init), st))
                out.append(ast.copy_location(ast.For(g.target, g.iter, inner, [], None), st))
            else:
                out.append(st)
        return out

    def generic_visit(self, node):
        super().generic_visit(node)
        for fld in ("body", "orelse", "finalbody"):
            b = getattr(node, fld, None)
            if isinstance(b, list) and b and isinstance(b[0], ast.stmt) and not isinstance(node, ast.ClassDef) and not isinstance(node, ast.Module):
                setattr(node, fld, self._block(b))
        return node


class Rename(ast.NodeTransformer):
    def visit_FunctionDef(self, node):
        # locals of this function: plain-name stores at this level (not inside nested defs / lambdas / comprehensions handled as own scope)
        params = {a.arg for a in ast.walk(node.args) if isinstance(a, ast.arg)}
        nested_names = set()
        glob = set()
        stores = set()

        def walk(n, top=True):
            for c in ast.iter_child_nodes(n):
                if isinstance(c, (ast.FunctionDef, ast.AsyncFunctionDef, ast.Lambda, ast.ClassDef)):
                    for x in ast.walk(c):
                        if isinstance(x, ast.Name):
                            nested_names.add(x.id)
                    if isinstance(c, (ast.FunctionDef, ast.ClassDef)):
                        nested_names.add(c.name)
                    continue
                if isinstance(c, (ast.Global, ast.Nonlocal)):
                    glob.update(c.names)
                if isinstance(c, (ast.ListComp, ast.SetComp, ast.DictComp, ast.GeneratorExp)):
                    for x in ast.walk(c):
                        if isinstance(x, ast.Name):
                            nested_names.add(x.id)
                    continue
                if isinstance(c, ast.Name) and isinstance(c.ctx, ast.Store):
                    stores.add(c.id)
                if isinstance(c, (ast.Import, ast.ImportFrom)):
                    for a in c.names:
                        nested_names.add((a.asname or a.name).split(".")[0])
                if isinstance(c, ast.ExceptHandler) and c.name:
                    nested_names.add(c.name)
                walk(c, False)

        walk(node)
        ren = {s: s + "_v" for s in stores - params - nested_names - glob if not s.startswith("_")}

        class R(ast.NodeTransformer):
            def visit_FunctionDef(self, n):
                return n

            visit_AsyncFunctionDef = visit_Lambda = visit_ClassDef = visit_FunctionDef

            def visit_Name(self, n):
                if n.id in ren:
                    n.id = ren[n.id]
                return n

        for k, st in enumerate(node.body):
            node.body[k] = R().visit(st)
        # nested defs are handled on their own
        for st in ast.walk(node):
            if st is not node and isinstance(st, ast.FunctionDef):
                pass
        return node


class Temps(ast.NodeTransformer):
    """`return E` -> `result_t = E; return result_t`; `if T:` -> `cond_t = T; if cond_t:` (statement level only)."""

    def _block(self, body):
        out = []
        for st in body:
            if isinstance(st, ast.Return) and st.value is not None and not isinstance(st.value, (ast.Name, ast.Constant)):
                out.append(ast.copy_location(ast.Assign([ast.Name("result_t", ast.Store())], st.value), st))
                out.append(ast.copy_location(ast.Return(ast.Name("result_t", ast.Load())), st))
            elif isinstance(st, ast.If) and not isinstance(st.test, (ast.Name, ast.Constant)):
                out.append(ast.copy_location(ast.Assign([ast.Name("cond_t", ast.Store())], st.test), st))
                st.test = ast.copy_location(ast.Name("cond_t", ast.Load()), st.test)
                out.append(st)
            else:
                out.append(st)
        return out

    def generic_visit(self, node):
        super().generic_visit(node)
        if isinstance(node, (ast.Module, ast.ClassDef)):
            return node
        inside_fn = True
        for fld in ("body", "orelse", "finalbody"):
            b = getattr(node, fld, None)
            if isinstance(b, list) and b and isinstance(b[0], ast.stmt):
                # an `elif` (orelse holding exactly one If) would be moved behind a temporary: keep the chain's tests in place
                if fld == "orelse" and isinstance(node, ast.If) and len(b) == 1 and isinstance(b[0], ast.If):
                    continue
                setattr(node, fld, self._block(b))
        return node


class IfExp(ast.NodeTransformer):
    """`if c: x = A else: x = B` (single plain-name assignments of one name) -> `x = A if c else B`."""

    def visit_If(self, node):
        self.generic_visit(node)
        if len(node.body) == 1 and len(node.orelse) == 1:
            a, b = node.body[0], node.orelse[0]
            if all(isinstance(s, ast.Assign) and len(s.targets) == 1 and isinstance(s.targets[0], ast.Name) for s in (a, b)) and a.targets[0].id == b.targets[0].id:
                return ast.copy_location(ast.Assign([a.targets[0]], ast.IfExp(node.test, a.value, b.value)), node)
            if isinstance(a, ast.Return) and isinstance(b, ast.Return) and a.value is not None and b.value is not None:
                return ast.copy_location(ast.Return(ast.IfExp(node.test, a.value, b.value)), node)
        return node


class DeMorgan(ast.NodeTransformer):
    """`if a and b:` -> `if not (not a or not b):` (tests of if statements only)."""

    def visit_If(self, node):
        self.generic_visit(node)
        t = node.test
        if isinstance(t, ast.BoolOp):
            other = ast.Or() if isinstance(t.op, ast.And) else ast.And()
            node.test = ast.copy_location(ast.UnaryOp(ast.Not(), ast.BoolOp(other, [ast.UnaryOp(ast.Not(), v) for v in t.values])), t)
        return node


class SwapCmp(ast.NodeTransformer):
    """`a < b` -> `b > a`, `a == b` -> `b == a`, `a is b` -> `b is a` (pure operands: names, attributes, constants, calls of len)."""

    def visit_Compare(self, node):
        self.generic_visit(node)
        if len(node.ops) != 1:
            return node

        def pure(e):
            return isinstance(e, (ast.Name, ast.Attribute, ast.Constant)) or (isinstance(e, ast.Call) and isinstance(e.func, ast.Name) and e.func.id == "len" and all(pure(a) for a in e.args))

        l, r = node.left, node.comparators[0]
        if not (pure(l) and pure(r)):
            return node
        m = {ast.Lt: ast.Gt, ast.Gt: ast.Lt, ast.LtE: ast.GtE, ast.GtE: ast.LtE, ast.Eq: ast.Eq, ast.NotEq: ast.NotEq, ast.Is: ast.Is, ast.IsNot: ast.IsNot}
        op = m.get(type(node.ops[0]))
        if op is None:
            return node
        if isinstance(node.ops[0], (ast.Eq, ast.NotEq)) and not (isinstance(l, ast.Constant) or isinstance(r, ast.Constant)):
            return node  # user-defined __eq__ may not be symmetric
        return ast.copy_location(ast.Compare(r, [op()], [l]), node)


TRANSFORMS = {"negate": Negate, "guards": Guards, "loops": Loops, "rename": Rename, "temps": Temps, "ifexp": IfExp, "demorgan": DeMorgan, "swapcmp": SwapCmp}

if DEST.exists():
    shutil.rmtree(DEST)
shutil.copytree("/repo", DEST, ignore=shutil.ignore_patterns(".git", "__pycache__", "*.pyc", ".pytest_cache"))
n = 0
for sub in ("hdl21", "pdks/Sky130/sky130_hdl21", "pdks/Gf180/gf180_hdl21", "pdks/Asap7/asap7_hdl21"):
    for p in (DEST / sub).rglob("*.py"):
        if "/tests/" in str(p) or p.name.startswith("test_") or p.name == "conftest.py":
            continue
        src = p.read_text()
        tree = ast.parse(src)
        new = TRANSFORMS[T]().visit(tree)
        ast.fix_missing_locations(new)
        out = ast.unparse(new)
        compile(out, str(p), "exec")
        if out != ast.unparse(ast.parse(src)):
            n += 1
        p.write_text(out + "\n")
print(f"{T}: {n} files changed under {DEST}")
