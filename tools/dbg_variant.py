import sys, shutil
sys.path.insert(0, "/verif")
from pathlib import Path
from hsa import selftest
name = sys.argv[1]  # e.g. benign/C14-g1 or seeded/C01-7
edits = selftest.apply_unified((Path("/verif") / name / "patch.diff").read_text(), Path("/repo"))
assert edits is not None, "patch does not apply"
tmp = selftest.mirror(Path("/repo"), edits)
dest = Path("/tmp/dbg_" + name.replace("/", "_"))
if dest.exists():
    shutil.rmtree(dest)
shutil.move(str(tmp), str(dest))
print(dest)
