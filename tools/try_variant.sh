#!/bin/bash
# usage: try_variant.sh benign/C01-g5 C06 C13   -> mirror with the patch applied, run the given checks on it
name=$1; shift
d=$(/venv/bin/python /verif/tools/dbg_variant.py $name 2>/dev/null | tail -1)
for p in "$@"; do
  HSA_EVIDENCE_DIR=/tmp/ev_scratch /venv/bin/python -m hsa.check --prop $p --root $d 2>&1 | grep -v "WARNING\|KNOWN-FINDING" | grep -v "^VIOLATION" | cut -c1-600 | tail -8
done
echo "mirror: $d"
