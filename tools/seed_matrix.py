#!/venv/bin/python
"""Re-run every quick check against every kept seeded change and refresh the detection status.

usage: seed_matrix.py [--only C12-1,C08-3] [--jobs 16] [--write]

For each /verif/seeded/<name>/patch.diff: export /repo HEAD's tree (git archive) into a scratch
directory under a fresh temp dir, apply the patch there (nothing under /repo is touched), run
`hsa.check --prop <every property> --root <scratch>` with evidence redirected into the scratch
directory, and record which rules fire.  With --write, meta.json's `detected_by` / `detected`
fields are refreshed and /verif/seeded/MATRIX.md is rewritten.  The scratch directories are removed.
(The confirmation that a change passes the suite and breaks its demo is eval_seed.py's job and is
not repeated here.)
"""
import json
import os
import shutil
import subprocess
import sys
import tempfile
from concurrent.futures import ThreadPoolExecutor
from pathlib import Path

PY = "/venv/bin/python"
SEEDED = Path("/verif/benign") if "--benign" in sys.argv else Path("/verif/seeded")
BENIGN = "--benign" in sys.argv
PROPS = [f"C{n:02d}" for n in range(1, 20)]


def sh(cmd, cwd=None, env=None):
    p = subprocess.run(cmd, shell=True, cwd=cwd, env=env, capture_output=True, text=True, timeout=1800)
    return p.returncode, p.stdout + p.stderr


def one(name: str, base: Path):
    d = base / name
    d.mkdir()
    rc, o = sh(f"git -C /repo archive HEAD | tar -x -C {d}")
    assert rc == 0, o
    rc, o = sh(f"git apply --unsafe-paths --directory={d} {SEEDED / name / 'patch.diff'}", cwd="/")
    if rc != 0:
        rc, o = sh(f"patch -p1 -s < {SEEDED / name / 'patch.diff'}", cwd=d)
    if rc != 0:
        shutil.rmtree(d, ignore_errors=True)
        return name, {"apply-failed": [o[-200:]]}, {}
    env = dict(os.environ, PYTHONDONTWRITEBYTECODE="1", HSA_EVIDENCE_DIR=str(d / "_evidence"))
    fired, rcs = {}, {}
    for p in PROPS:
        rc, o = sh(f"{PY} -m hsa.check --prop {p} --root {d}", cwd="/verif", env=env)
        if rc != 0:
            rules = sorted({l.strip().split()[1] for l in o.splitlines() if l.strip().startswith("rule ")})
            fired[p] = rules or [l for l in o.splitlines() if "ANALYSIS-ERROR" in l][:1]
            rcs[p] = rc
    shutil.rmtree(d, ignore_errors=True)
    return name, fired, rcs


def main():
    names = sorted(p.name for p in SEEDED.iterdir() if (p / "patch.diff").exists())
    if "--only" in sys.argv:
        sel = sys.argv[sys.argv.index("--only") + 1].split(",")
        names = [n for n in names if n in sel]
    jobs = int(sys.argv[sys.argv.index("--jobs") + 1]) if "--jobs" in sys.argv else 16
    base = Path(tempfile.mkdtemp(prefix="seedmatrix-"))
    rows = []
    try:
        with ThreadPoolExecutor(jobs) as ex:
            for name, fired, rcs in ex.map(lambda n: one(n, base), names):
                meta_p = SEEDED / name / "meta.json"
                meta = json.loads(meta_p.read_text())
                prop = meta["property"]
                own = rcs.get(prop) == 1
                other = sorted(p for p, rc in rcs.items() if rc == 1 and p != prop)
                errs = sorted(p for p, rc in rcs.items() if rc != 1)
                status = "detected" if own else ("detected-by-other" if other else ("analysis-error" if errs else "MISSED"))
                if BENIGN:
                    status = "silent" if not rcs else ("FALSE-ALARM" if any(rc == 1 for rc in rcs.values()) else "ANALYSIS-ERROR")
                rows.append((name, prop, status, fired))
                print(f"{name}: {status} {json.dumps(fired)[:300]}")
                if "--write" in sys.argv:
                    if BENIGN:
                        meta["fired"] = fired
                        meta["status"] = status
                    else:
                        meta["detected_by"] = fired
                        meta["detected"] = bool(own)
                        meta["detected_status"] = status
                    meta_p.write_text(json.dumps(meta, indent=1))
    finally:
        shutil.rmtree(base, ignore_errors=True)
    n_own = sum(1 for r in rows if r[2] == "detected")
    n_other = sum(1 for r in rows if r[2] == "detected-by-other")
    n_err = sum(1 for r in rows if r[2] == "analysis-error")
    n_miss = sum(1 for r in rows if r[2] == "MISSED")
    if BENIGN:
        ns = sum(1 for r in rows if r[2] == "silent")
        print(f"{len(rows)} behaviour-preserving changes: {ns} silent, {len(rows) - ns} NOT silent")
        if "--write" in sys.argv and "--only" not in sys.argv:
            lines = ["# Behaviour-preserving changes × checks", "", f"{len(rows)} refactorings (suite green, behaviour unchanged); {ns} leave every quick check silent.", "",
                     "Regenerate with `tools/seed_matrix.py --benign --write`.", "", "| change | anchored property | status | what fired |", "|---|---|---|---|"]
            for name, prop, status, fired in rows:
                cell = "; ".join(f"{p}: {', '.join(r)[:160]}" for p, r in sorted(fired.items())) or "—"
                lines.append(f"| {name} | {prop} | {status} | {cell} |")
            (SEEDED / "MATRIX.md").write_text("\n".join(lines) + "\n")
        return 0
    print(f"{len(rows)} seeded changes: {n_own} detected by the target property's check, {n_other} only by another property's check, {n_err} analysis-error only, {n_miss} missed")
    if "--write" in sys.argv and "--only" not in sys.argv:
        lines = ["# Seeded changes × checks", "",
                 f"{len(rows)} confirmed changes; {n_own} detected by the target property's quick check (exit 1 + VIOLATION), "
                 f"{n_other} only by another property's check, {n_err} stop the analysis (exit 2) without a verdict, {n_miss} missed.", "",
                 "Regenerate with `tools/seed_matrix.py --write`.", "",
                 "| change | property | status | rules that fire (property: rules) |", "|---|---|---|---|"]
        for name, prop, status, fired in rows:
            cell = "; ".join(f"{p}: {', '.join(r)[:160]}" for p, r in sorted(fired.items())) or "—"
            lines.append(f"| {name} | {prop} | {status} | {cell} |")
        (SEEDED / "MATRIX.md").write_text("\n".join(lines) + "\n")
    return 0


if __name__ == "__main__":
    sys.exit(main())
